package harness

import (
	"bufio"
	"crypto/sha256"
	"encoding/binary"
	"encoding/json"
	"fmt"
	"math/rand"
	"os"
	"os/exec"
	"path/filepath"
	"runtime"
	"runtime/debug"
	"sort"
	"strconv"
	"strings"
	"sync"
	"time"
)

const (
	Held         = "held"
	Violated     = "violated"
	Inconclusive = "inconclusive"
)

// CaseResult is what one case reports.
type CaseResult struct {
	Case        int              `json:"case"`
	Seed        uint64           `json:"seed"`
	Verdict     string           `json:"verdict"`
	Sig         string           `json:"sig,omitempty"`
	Detail      string           `json:"detail,omitempty"`
	Witness     interface{}      `json:"witness,omitempty"`
	Nontrivial  bool             `json:"nontrivial"`
	Fingerprint string           `json:"fp,omitempty"`
	Features    []string         `json:"features,omitempty"`
	Counters    map[string]int64 `json:"counters,omitempty"`
	Sample      interface{}      `json:"sample,omitempty"`
	WallMs      int64            `json:"wall_ms"`
	Known       []KnownHit       `json:"known,omitempty"`
	CrashSig    string           `json:"crash_sig,omitempty"`
}

type KnownHit struct {
	Sig    string `json:"sig"`
	Detail string `json:"detail"`
}

// Ctx is handed to a case.
type Ctx struct {
	ID      string
	Tier    string
	Case    int
	Seed    uint64
	R       *rand.Rand
	res     *CaseResult
	feat    map[string]bool
	fpParts []string
	known   map[string]bool // known-finding signatures (read-only)
	mark    func(string)
	mu      sync.Mutex // monitors call into the context from callback goroutines too
}

// CrashContext records (durably, before the risky step) what the case is about to do, so that a worker
// crash can be attributed to the specific history rather than to the property as a whole.
func (c *Ctx) CrashContext(s string) {
	if c.mark != nil {
		c.mark(s)
	}
}

func (c *Ctx) Thorough() bool { return c.Tier == "thorough" }

// Violate records the first violation of the case.
func (c *Ctx) Violate(sig, detail string, witness interface{}) {
	c.mu.Lock()
	defer c.mu.Unlock()
	c.violate(sig, detail, witness)
}

func (c *Ctx) violate(sig, detail string, witness interface{}) {
	if c.res.Verdict == Violated {
		return
	}
	c.res.Verdict = Violated
	c.res.Sig = sig
	c.res.Detail = detail
	c.res.Witness = witness
}

// KnownOrViolate: if sig is a listed known finding, record the hit (the case goes on or stops as the caller decides) and return true.
func (c *Ctx) KnownOrViolate(sig, detail string, witness interface{}) bool {
	c.mu.Lock()
	defer c.mu.Unlock()
	if c.known[sig] {
		for _, k := range c.res.Known {
			if k.Sig == sig {
				return true
			}
		}
		c.res.Known = append(c.res.Known, KnownHit{sig, detail})
		return true
	}
	c.violate(sig, detail, witness)
	return false
}

func (c *Ctx) Failed() bool {
	c.mu.Lock()
	defer c.mu.Unlock()
	return c.res.Verdict == Violated
}

func (c *Ctx) Inconclusive(reason string) {
	c.mu.Lock()
	defer c.mu.Unlock()
	c.inconclusive(reason)
}

func (c *Ctx) inconclusive(reason string) {
	if c.res.Verdict == Violated {
		return
	}
	c.res.Verdict = Inconclusive
	c.res.Detail = reason
}

// InconclusiveW is Inconclusive with a witness attached.
func (c *Ctx) InconclusiveW(reason string, w interface{}) {
	c.mu.Lock()
	defer c.mu.Unlock()
	if c.res.Verdict == Violated {
		return
	}
	c.inconclusive(reason)
	c.res.Witness = w
}

// Feature marks a non-trivial feature this case exercised.
func (c *Ctx) Feature(f string) {
	c.mu.Lock()
	c.feat[f] = true
	c.mu.Unlock()
}

// Nontrivial marks the case as non-trivial by the check's rule.
func (c *Ctx) Nontrivial() {
	c.mu.Lock()
	c.res.Nontrivial = true
	c.mu.Unlock()
}

// FP adds a component to the case fingerprint (what makes the case distinct).
func (c *Ctx) FP(parts ...interface{}) {
	c.mu.Lock()
	defer c.mu.Unlock()
	for _, p := range parts {
		c.fpParts = append(c.fpParts, fmt.Sprint(p))
	}
}

func (c *Ctx) Count(k string, n int64) {
	c.mu.Lock()
	defer c.mu.Unlock()
	if c.res.Counters == nil {
		c.res.Counters = map[string]int64{}
	}
	c.res.Counters[k] += n
}

func (c *Ctx) Sample(v interface{}) {
	c.mu.Lock()
	c.res.Sample = v
	c.mu.Unlock()
}

// Check describes one property's machinery.
type Check struct {
	ID          string
	Level       string
	Technique   string
	Rule        string
	Assumptions []string
	// Cases returns the number of cases for the tier.
	Cases func(tier string) int
	Run   func(c *Ctx)
	// MinNontrivial is the coverage floor (distinct non-trivial cases) below which the run is inconclusive.
	MinNontrivial func(tier string) int
	// RequiredFeatures must all be seen at least once (coverage floor).
	RequiredFeatures func(tier string) []string
	CaseTimeout      time.Duration
	// InProc > 1 runs that many cases concurrently inside one worker (for cases that mostly sleep).
	InProc int
	// Workers overrides the number of worker processes (0 = min(16, cases)).
	Workers int
	// Race: run the workers from the -race binary and parse race reports.
	Race bool
	// Exhaustive, if set, is called by the supervisor with all results and returns whether the run enumerated its space completely plus extra coverage keys.
	Post func(tier string, results []*CaseResult) map[string]interface{}
	// RaceClassify classifies one race report block; returns a violation signature or "" (noise).
	RaceClassify func(block string) string
}

var registry = map[string]*Check{}

func Register(c *Check)       { registry[c.ID] = c }
func Lookup(id string) *Check { return registry[id] }
func IDs() []string {
	ids := []string{}
	for k := range registry {
		ids = append(ids, k)
	}
	sort.Strings(ids)
	return ids
}

// SubSeed derives the seed of case i deterministically.
func SubSeed(seed uint64, id string, i int) uint64 {
	h := sha256.New()
	var b [16]byte
	binary.LittleEndian.PutUint64(b[:8], seed)
	binary.LittleEndian.PutUint64(b[8:], uint64(i))
	h.Write(b[:])
	h.Write([]byte(id))
	s := h.Sum(nil)
	return binary.LittleEndian.Uint64(s[:8])
}

// ---- known findings ---------------------------------------------------------

type KnownFinding struct {
	Property  string `json:"property"`
	Signature string `json:"signature"`
	What      string `json:"what"`
	History   string `json:"history,omitempty"`
	// CrashContext: engine crashes recorded after this specific history step (see Ctx.CrashContext) belong to this finding
	CrashContext string `json:"crash_context,omitempty"`
}
type KnownFile struct {
	Findings []KnownFinding `json:"findings"`
	Fixed    []string       `json:"fixed"`
}

func LoadKnown(root string) *KnownFile {
	var k KnownFile
	b, err := os.ReadFile(filepath.Join(root, "known_findings.json"))
	if err == nil {
		json.Unmarshal(b, &k)
	}
	return &k
}

func (k *KnownFile) sigs(prop string) map[string]bool {
	m := map[string]bool{}
	for _, f := range k.Findings {
		if f.Property == prop {
			m[f.Signature] = true
		}
	}
	return m
}

// canon maps a violation signature to the signature of the listed finding it belongs to ("" if none).
func (k *KnownFile) canon(prop, sig string) string {
	for _, f := range k.Findings {
		if f.Property != prop {
			continue
		}
		if f.Signature == sig {
			return f.Signature
		}
		if f.CrashContext != "" && strings.Contains(sig, "/engine-crash/") && strings.HasSuffix(sig, "/after:"+f.CrashContext) {
			return f.Signature
		}
	}
	return ""
}

// ---- worker -----------------------------------------------------------------

func runOne(ck *Check, tier string, seed uint64, i int, known map[string]bool, mark func(string)) (res *CaseResult) {
	ss := SubSeed(seed, ck.ID, i)
	res = &CaseResult{Case: i, Seed: ss, Verdict: Held}
	c := &Ctx{ID: ck.ID, Tier: tier, Case: i, Seed: ss, R: rand.New(rand.NewSource(int64(ss))), res: res, feat: map[string]bool{}, known: known, mark: mark}
	start := time.Now()
	func() {
		defer func() {
			if r := recover(); r != nil {
				st := string(debug.Stack())
				// a panic on the case goroutine: engine code called synchronously or harness bug
				if harnessTornMarshal(st, fmt.Sprint(r)) {
					// the harness's own callback marshalled the live table while an engine goroutine was writing it
					// (unlocked API method publishing an event): a torn read made by the harness, not an engine fault
					res.Verdict = Inconclusive
					res.Detail = fmt.Sprintf("harness read of the live table torn by a concurrent engine write: %v", r)
				} else if strings.Contains(firstNonRuntimeFrame(st), "/verif/") {
					res.Verdict = Inconclusive
					res.Detail = fmt.Sprintf("harness-panic: %v\n%s", r, st)
				} else {
					c.Violate(ck.ID+"/engine-panic/"+panicSite(st), fmt.Sprintf("panic: %v", r), st)
				}
			}
		}()
		ck.Run(c)
	}()
	res.WallMs = time.Since(start).Milliseconds()
	for f := range c.feat {
		res.Features = append(res.Features, f)
	}
	sort.Strings(res.Features)
	if len(c.fpParts) > 0 {
		h := sha256.Sum256([]byte(strings.Join(c.fpParts, "|")))
		res.Fingerprint = fmt.Sprintf("%x", h[:8])
	} else {
		res.Fingerprint = fmt.Sprintf("seed-%x", ss)
	}
	return res
}

func firstNonRuntimeFrame(st string) string {
	lines := strings.Split(st, "\n")
	for _, l := range lines {
		l = strings.TrimSpace(l)
		if strings.HasPrefix(l, "/") && !strings.Contains(l, "/runtime/") && !strings.Contains(l, "harness/framework.go") {
			return l
		}
	}
	return ""
}

func panicSite(st string) string {
	lines := strings.Split(st, "\n")
	for i, l := range lines {
		t := strings.TrimSpace(l)
		if strings.HasPrefix(t, "/") && !strings.Contains(t, "/runtime/") && !strings.Contains(t, "/verif/") && i > 0 {
			fn := strings.TrimSpace(lines[i-1])
			if k := strings.Index(fn, "("); k > 0 {
				fn = fn[:k]
			}
			if k := strings.LastIndex(fn, "/"); k >= 0 {
				fn = fn[k+1:]
			}
			return fn
		}
	}
	return "unknown"
}

// WorkerMain runs cases i ≡ shard (mod shards), i >= from, writing JSONL to out.
func WorkerMain(id, tier string, seed uint64, shard, shards, from int, out string, root string) int {
	ck := Lookup(id)
	if ck == nil {
		fmt.Fprintln(os.Stderr, "unknown check", id)
		return 2
	}
	known := LoadKnown(root).sigs(id)
	f, err := os.OpenFile(out, os.O_APPEND|os.O_CREATE|os.O_WRONLY, 0o644)
	if err != nil {
		fmt.Fprintln(os.Stderr, err)
		return 2
	}
	defer f.Close()
	var wmu sync.Mutex
	write := func(v interface{}) {
		b, _ := json.Marshal(v)
		wmu.Lock()
		f.Write(append(b, '\n'))
		wmu.Unlock()
	}
	n := ck.Cases(tier)
	to := ck.CaseTimeout
	if to == 0 {
		to = 120 * time.Second
	}
	par := ck.InProc
	if par < 1 {
		par = 1
	}
	sem := make(chan struct{}, par)
	var wg sync.WaitGroup
	// once any worker has recorded a violation the run's verdict is settled: the remaining cases are skipped (under a
	// property-breaking change every further case may run into its watchdog). VERIF_NO_EARLY_STOP=1 explores on.
	stop := filepath.Join(filepath.Dir(out), "STOP")
	earlyStop := os.Getenv("VERIF_NO_EARLY_STOP") == ""
	for i := from; i < n; i++ {
		if i%shards != shard {
			continue
		}
		if _, err := os.Stat(stop); err == nil && earlyStop {
			break
		}
		sem <- struct{}{}
		wg.Add(1)
		go func(i int) {
			defer wg.Done()
			defer func() { <-sem }()
			write(map[string]interface{}{"begin": i})
			done := make(chan *CaseResult, 1)
			go func() {
				done <- runOne(ck, tier, seed, i, known, func(m string) { write(map[string]interface{}{"mark": i, "ctx": m}); f.Sync() })
			}()
			select {
			case r := <-done:
				write(map[string]interface{}{"end": i, "result": r})
				if r.Verdict == Violated && earlyStop {
					os.WriteFile(stop, []byte(fmt.Sprintf("case %d\n", i)), 0o644)
				}
			case <-time.After(to):
				buf := make([]byte, 1<<20)
				buf = buf[:runtime.Stack(buf, true)]
				r := &CaseResult{Case: i, Seed: SubSeed(seed, id, i), Verdict: Inconclusive, Detail: "watchdog: case exceeded " + to.String(), Witness: string(buf), WallMs: to.Milliseconds()}
				write(map[string]interface{}{"end": i, "result": r})
				write(map[string]interface{}{"hang": i})
				f.Sync()
				os.Exit(4)
			}
		}(i)
	}
	wg.Wait()
	write(map[string]interface{}{"done": true})
	return 0
}

// ---- supervisor ---------------------------------------------------------------

type shardState struct {
	results map[int]*CaseResult
	begun   map[int]bool
	done    bool
	hang    bool
	marks   map[int]string
}

func readShard(path string) *shardState {
	st := &shardState{results: map[int]*CaseResult{}, begun: map[int]bool{}, marks: map[int]string{}}
	f, err := os.Open(path)
	if err != nil {
		return st
	}
	defer f.Close()
	sc := bufio.NewScanner(f)
	sc.Buffer(make([]byte, 1<<20), 1<<28)
	for sc.Scan() {
		var m struct {
			Begin  *int        `json:"begin"`
			End    *int        `json:"end"`
			Result *CaseResult `json:"result"`
			Done   bool        `json:"done"`
			Hang   *int        `json:"hang"`
			Mark   *int        `json:"mark"`
			Ctx    string      `json:"ctx"`
		}
		if json.Unmarshal(sc.Bytes(), &m) != nil {
			continue
		}
		if m.Begin != nil {
			st.begun[*m.Begin] = true
		}
		if m.End != nil && m.Result != nil {
			st.results[*m.End] = m.Result
		}
		if m.Done {
			st.done = true
		}
		if m.Hang != nil {
			st.hang = true
		}
		if m.Mark != nil {
			st.marks[*m.Mark] = m.Ctx
		}
	}
	return st
}

type RunOpts struct {
	Root    string // /verif
	Bin     string // path of the vcheck binary (for workers)
	RaceBin string
	Tier    string
	Seed    uint64
}

// Supervise runs a whole check and returns the process exit code.
func Supervise(id string, o RunOpts) int {
	ck := Lookup(id)
	if ck == nil {
		fmt.Println("unknown check", id)
		return 2
	}
	start := time.Now()
	n := ck.Cases(o.Tier)
	shards := ck.Workers
	if shards == 0 {
		shards = runtime.NumCPU()
		if shards > 16 {
			shards = 16
		}
	}
	if shards > n {
		shards = n
	}
	if shards < 1 {
		shards = 1
	}
	// VERIF_WORK_SUFFIX: a run against a scratch copy (tools/runmuts.sh) gets a work directory of its own, so that it can
	// run next to a run of the same property against /repo
	work := filepath.Join(o.Root, ".work", id+os.Getenv("VERIF_WORK_SUFFIX"))
	os.RemoveAll(work)
	os.MkdirAll(work, 0o755)
	bin := o.Bin
	if ck.Race {
		bin = o.RaceBin
	}
	known := LoadKnown(o.Root)
	results := make([]*CaseResult, n)
	var mu sync.Mutex
	var wg sync.WaitGroup
	crashes := 0
	var raceLogs []string
	for s := 0; s < shards; s++ {
		wg.Add(1)
		go func(s int) {
			defer wg.Done()
			out := filepath.Join(work, fmt.Sprintf("shard%02d.jsonl", s))
			from := 0
			for attempt := 0; attempt < 50; attempt++ {
				errPath := filepath.Join(work, fmt.Sprintf("shard%02d.%d.stderr", s, attempt))
				ef, _ := os.Create(errPath)
				cmd := exec.Command(bin, "worker", id, o.Tier, strconv.FormatUint(o.Seed, 10), strconv.Itoa(s), strconv.Itoa(shards), strconv.Itoa(from), out, o.Root)
				cmd.Stdout = nil // engine chatter -> /dev/null
				cmd.Stderr = ef
				cmd.Env = append(os.Environ(), "GOTRACEBACK=all")
				if ck.Race {
					rl := filepath.Join(work, fmt.Sprintf("race%02d.%d", s, attempt))
					cmd.Env = append(cmd.Env, "GORACE=halt_on_error=0 log_path="+rl)
					mu.Lock()
					raceLogs = append(raceLogs, rl)
					mu.Unlock()
				}
				cmd.Run()
				ef.Close()
				st := readShard(out)
				if st.done {
					break
				}
				// crashed or hung: find the case(s) begun but not ended
				maxBegun := -1
				for i := range st.begun {
					if i > maxBegun {
						maxBegun = i
					}
					if _, ok := st.results[i]; !ok {
						eb, _ := os.ReadFile(errPath)
						es := string(eb)
						if len(es) > 60000 {
							es = es[:30000] + "\n...\n" + es[len(es)-30000:]
						}
						r := &CaseResult{Case: i, Seed: SubSeed(o.Seed, id, i)}
						// a crash is first recorded as inconclusive; the case is re-run alone afterwards and only a
						// crash that repeats is a violation (rare scheduling-dependent panics in engine callbacks are not
						// attributable to the property under test)
						r.Verdict = Inconclusive
						if strings.Contains(es, "panic:") || strings.Contains(es, "fatal error:") {
							site := crashSite(es)
							if strings.Contains(site, "verif/") {
								r.Detail = "harness crash at " + site
							} else {
								r.CrashSig = id + "/engine-crash/" + site
								if cx := st.marks[i]; cx != "" {
									r.CrashSig += "/after:" + cx
								}
								r.Detail = "worker process died while running this case: " + firstLine(es, "panic:", "fatal error:")
							}
						} else {
							r.Detail = "worker died without panic output"
						}
						r.Witness = es
						// persist so a later readShard sees it
						b, _ := json.Marshal(map[string]interface{}{"end": i, "result": r})
						f, _ := os.OpenFile(out, os.O_APPEND|os.O_WRONLY, 0o644)
						f.Write(append(b, '\n'))
						f.Close()
						mu.Lock()
						crashes++
						mu.Unlock()
					}
				}
				from = maxBegun + 1
				if maxBegun < 0 {
					break // never started: infrastructure problem
				}
			}
			st := readShard(out)
			mu.Lock()
			for i, r := range st.results {
				if i >= 0 && i < n {
					results[i] = r
				}
			}
			mu.Unlock()
		}(s)
	}
	wg.Wait()

	// re-run inconclusive cases once, each in a fresh worker process (in parallel, bounded)
	var rwg sync.WaitGroup
	rsem := make(chan struct{}, 16)
	rerun := 0
	for i, r := range results {
		if r != nil && r.Verdict == Inconclusive && rerun < 32 {
			rerun++
			rwg.Add(1)
			rsem <- struct{}{}
			go func(i int, r *CaseResult) {
				defer rwg.Done()
				defer func() { <-rsem }()
				out := filepath.Join(work, fmt.Sprintf("rerun%05d.jsonl", i))
				cmd := exec.Command(bin, "worker", id, o.Tier, strconv.FormatUint(o.Seed, 10), strconv.Itoa(i), strconv.Itoa(n+1), strconv.Itoa(i), out, o.Root)
				ef, _ := os.Create(out + ".stderr")
				cmd.Stderr = ef
				cmd.Run()
				ef.Close()
				st := readShard(out)
				if rr, ok := st.results[i]; ok {
					rr.Detail = "[re-run after inconclusive: " + firstN(r.Detail, 200) + "] " + rr.Detail
					mu.Lock()
					results[i] = rr
					mu.Unlock()
				} else if st.begun[i] {
					// crashed again when run alone
					eb, _ := os.ReadFile(out + ".stderr")
					es := string(eb)
					if len(es) > 60000 {
						es = es[:30000] + "\n...\n" + es[len(es)-30000:]
					}
					site := crashSite(es)
					rr := &CaseResult{Case: i, Seed: r.Seed, Verdict: Inconclusive, Detail: "re-run died: " + firstLine(es, "panic:", "fatal error:"), Witness: es}
					if tornMarshal(es) {
						rr.Detail = "re-run died again in a torn marshal of the engine's live table (data race by construction, not attributable to the property): " + firstLine(es, "panic:", "fatal error:")
					} else if (strings.Contains(es, "panic:") || strings.Contains(es, "fatal error:")) && !strings.Contains(site, "verif/") {
						rr.Verdict = Violated
						rr.Sig = id + "/engine-crash/" + site
						if cx := st.marks[i]; cx != "" {
							rr.Sig += "/after:" + cx
						}
						rr.Detail = "worker process died while running this case, twice (also when run alone): " + firstLine(es, "panic:", "fatal error:")
					}
					mu.Lock()
					results[i] = rr
					mu.Unlock()
				}
			}(i, r)
		}
	}
	rwg.Wait()
	return finish(ck, o, known, results, crashes, raceLogs, start)
}

func firstN(s string, n int) string {
	if len(s) > n {
		return s[:n]
	}
	return s
}

func firstLine(s string, keys ...string) string {
	for _, l := range strings.Split(s, "\n") {
		for _, k := range keys {
			if strings.Contains(l, k) {
				return strings.TrimSpace(l)
			}
		}
	}
	return ""
}

// tornMarshal reports whether the process died inside encoding/json while marshalling: the engine hands out its
// live table by pointer and keeps changing it, so a subscriber (the harness, or the repository's own actor adapter)
// that marshals it can be torn by a concurrent writer - a slice shrinks under the encoder. That is the data race
// "by construction" of DESIGN section 1; it says nothing about the property under test, however often it repeats.
func tornMarshal(es string) bool {
	i := strings.Index(es, "panic:")
	if i < 0 {
		return false
	}
	blk := es[i:]
	if len(blk) > 4000 { // the panicking goroutine's stack comes first
		blk = blk[:4000]
	}
	return strings.Contains(blk, "encoding/json.(*encodeState).marshal") && (strings.Contains(blk, "reflect:") || strings.Contains(blk, "index out of range") || strings.Contains(blk, "nil pointer"))
}

// harnessTornMarshal: a recovered panic inside encoding/json's marshalling whose caller is the harness itself
// (cloneTable / TableJSON in a callback or a noise reader).
func harnessTornMarshal(stack, msg string) bool {
	if !(strings.Contains(msg, "reflect:") || strings.Contains(msg, "index out of range") || strings.Contains(msg, "nil pointer") || strings.Contains(msg, "slice bounds")) {
		return false
	}
	i := strings.Index(stack, "encoding/json.(*encodeState).marshal(")
	if i < 0 {
		return false
	}
	rest := stack[i:]
	j := strings.Index(rest, "encoding/json.Marshal(")
	if j < 0 {
		return false
	}
	lines := strings.Split(rest[j:], "\n")
	// lines[0] = json.Marshal(...), lines[1] = its file, lines[2] = the caller
	return len(lines) > 2 && strings.HasPrefix(lines[2], "verif/")
}

func crashSite(es string) string {
	lines := strings.Split(es, "\n")
	start := 0
	for i, l := range lines {
		if strings.HasPrefix(l, "panic:") || strings.HasPrefix(l, "fatal error:") {
			start = i
			break
		}
	}
	for i := start; i < len(lines); i++ {
		t := strings.TrimSpace(lines[i])
		if strings.HasPrefix(t, "/") && !strings.Contains(t, "/go/src/") && !strings.Contains(t, "/golang") && i > 0 {
			fn := strings.TrimSpace(lines[i-1])
			if k := strings.Index(fn, "("); k > 0 {
				fn = fn[:k]
			}
			if strings.Contains(t, "/verif/") {
				return "verif/" + fn
			}
			if k := strings.LastIndex(fn, "/"); k >= 0 {
				fn = fn[k+1:]
			}
			return fn
		}
	}
	return "unknown"
}

func finish(ck *Check, o RunOpts, known *KnownFile, results []*CaseResult, crashes int, raceLogs []string, start time.Time) int {
	id := ck.ID
	ksigs := known.sigs(id)
	var viol, inconc []*CaseResult
	knownHits := map[string]string{}
	featCount := map[string]int{}
	counters := map[string]int64{}
	fps := map[string]bool{}
	evals := 0
	var samples []interface{}
	missing := 0
	for _, r := range results {
		if r == nil {
			missing++
			continue
		}
		evals++
		for _, k := range r.Known {
			if _, ok := knownHits[k.Sig]; !ok {
				knownHits[k.Sig] = k.Detail
			}
		}
		switch r.Verdict {
		case Violated:
			if cs := known.canon(id, r.Sig); cs != "" {
				if _, ok := knownHits[cs]; !ok {
					knownHits[cs] = r.Detail
				}
				for _, f := range r.Features {
					featCount[f]++
				}
			} else {
				viol = append(viol, r)
			}
		case Inconclusive:
			inconc = append(inconc, r)
			continue
		}
		for _, f := range r.Features {
			featCount[f]++
		}
		for k, v := range r.Counters {
			counters[k] += v
		}
		if r.Nontrivial && r.Verdict == Held {
			fps[r.Fingerprint] = true
		}
		if r.Sample != nil && len(samples) < 4 && (r.Nontrivial || len(samples) == 0) {
			samples = append(samples, map[string]interface{}{"case": r.Case, "seed": r.Seed, "verdict": r.Verdict, "features": r.Features, "sample": r.Sample})
		}
	}
	// race reports
	raceViol := []string{}
	raceTotal, raceNoise := 0, 0
	raceClasses := map[string]int{}
	if ck.Race {
		for _, base := range raceLogs {
			matches, _ := filepath.Glob(base + ".*")
			for _, m := range matches {
				b, _ := os.ReadFile(m)
				for _, blk := range splitRaceBlocks(string(b)) {
					raceTotal++
					sig := ""
					if ck.RaceClassify != nil {
						sig = ck.RaceClassify(blk)
					}
					if sig == "" {
						raceNoise++
						raceClasses["noise:"+raceEntryPair(blk)]++
						continue
					}
					raceClasses[sig]++
					if !ksigs[sig] {
						raceViol = append(raceViol, sig+"\n"+blk)
					} else if _, ok := knownHits[sig]; !ok {
						knownHits[sig] = "race report"
					}
				}
			}
		}
	}

	// tools that run a check against a scratch copy carrying a seeded change set VERIF_EVIDENCE_DIR, so that the
	// committed evidence directory only ever holds runs against /repo itself
	evDir := filepath.Join(o.Root, "evidence")
	if d := os.Getenv("VERIF_EVIDENCE_DIR"); d != "" {
		evDir = d
	}
	os.MkdirAll(evDir, 0o755)
	os.MkdirAll(filepath.Join(o.Root, "replays", id), 0o755)
	exit := 0
	var lines []string
	for sig, what := range knownHits {
		lines = append(lines, fmt.Sprintf("KNOWN-FINDING: property=%s %s %s", id, sig, oneLine(what)))
	}
	sort.Strings(lines)
	for _, l := range lines {
		fmt.Println(l)
	}
	seenSig := map[string]bool{}
	for _, r := range viol {
		if seenSig[r.Sig] {
			continue
		}
		seenSig[r.Sig] = true
		path := filepath.Join(o.Root, "replays", id, fmt.Sprintf("%s-case%d-seed%d.json", sanitize(r.Sig), r.Case, o.Seed))
		b, _ := json.MarshalIndent(map[string]interface{}{"property": id, "tier": o.Tier, "seed": o.Seed, "case": r.Case, "case_seed": r.Seed, "signature": r.Sig, "detail": r.Detail, "witness": r.Witness, "sample": r.Sample, "replay": fmt.Sprintf("VERIF_SEED=%d bin/check %s %s --case %d", o.Seed, id, o.Tier, r.Case)}, "", " ")
		os.WriteFile(path, b, 0o644)
		fmt.Printf("VIOLATION property=%s replay=%s\n", id, path)
		fmt.Printf("  signature=%s case=%d detail=%s\n", r.Sig, r.Case, oneLine(r.Detail))
		exit = 1
	}
	for i, rv := range raceViol {
		sig := strings.SplitN(rv, "\n", 2)[0]
		if seenSig[sig] {
			continue
		}
		seenSig[sig] = true
		path := filepath.Join(o.Root, "replays", id, fmt.Sprintf("race-%d-seed%d.txt", i, o.Seed))
		os.WriteFile(path, []byte(rv), 0o644)
		fmt.Printf("VIOLATION property=%s replay=%s\n", id, path)
		fmt.Printf("  signature=%s (race detector: two serialised sections ran unordered)\n", sig)
		exit = 1
	}

	cov := map[string]interface{}{
		"evaluations":         evals,
		"distinct_nontrivial": len(fps),
		"rule":                ck.Rule,
		"samples":             samples,
		"features_seen":       featCount,
		"counters":            counters,
		"inconclusive_cases":  len(inconc),
		"worker_crashes":      crashes,
		"cases_planned":       len(results),
		"cases_missing":       missing,
	}
	if len(inconc) > 0 {
		lst := []string{}
		for _, r := range inconc {
			if len(lst) < 10 {
				lst = append(lst, fmt.Sprintf("case %d: %s", r.Case, firstN(oneLine(r.Detail), 200)))
			}
		}
		cov["inconclusive_list"] = lst
	}
	if len(knownHits) > 0 {
		kl := []string{}
		for s := range knownHits {
			kl = append(kl, s)
		}
		sort.Strings(kl)
		cov["known_findings_hit"] = kl
	}
	if ck.Race {
		cov["race_reports_total"] = raceTotal
		cov["race_reports_noise"] = raceNoise
		cov["race_report_classes"] = raceClasses
	}
	if ck.Post != nil {
		for k, v := range ck.Post(o.Tier, results) {
			cov[k] = v
		}
	}
	// coverage floor
	floorOK := true
	floorMsg := ""
	if ck.MinNontrivial != nil && len(fps) < ck.MinNontrivial(o.Tier) {
		floorOK = false
		floorMsg = fmt.Sprintf("distinct non-trivial cases %d < floor %d", len(fps), ck.MinNontrivial(o.Tier))
	}
	if ck.RequiredFeatures != nil {
		for _, f := range ck.RequiredFeatures(o.Tier) {
			if featCount[f] == 0 {
				floorOK = false
				floorMsg += " required feature never seen: " + f + ";"
			}
		}
	}
	if missing > 0 {
		floorOK = false
		floorMsg += fmt.Sprintf(" %d cases produced no result;", missing)
	}
	if len(inconc)*10 > evals+10 {
		floorOK = false
		floorMsg += fmt.Sprintf(" too many inconclusive cases (%d of %d);", len(inconc), evals)
	}
	ev := map[string]interface{}{
		"property_id": id,
		"tier":        o.Tier,
		"seed":        o.Seed,
		"level":       ck.Level,
		"coverage":    cov,
		"assumptions": ck.Assumptions,
		"wall_s":      time.Since(start).Seconds(),
		"violations":  len(seenSig),
		"technique":   ck.Technique,
	}
	if !floorOK {
		ev["coverage_floor_missed"] = floorMsg
	}
	if _, err := os.Stat(filepath.Join(o.Root, ".work", id+os.Getenv("VERIF_WORK_SUFFIX"), "STOP")); err == nil {
		ev["stopped_early"] = "a violation was recorded: the cases not yet started were skipped"
	}
	b, _ := json.MarshalIndent(ev, "", " ")
	os.WriteFile(filepath.Join(evDir, id+".json"), b, 0o644)
	fmt.Printf("%s %s seed=%d: cases=%d held-nontrivial-distinct=%d inconclusive=%d violations=%d known=%d wall=%.1fs\n", id, o.Tier, o.Seed, evals, len(fps), len(inconc), len(seenSig), len(knownHits), time.Since(start).Seconds())
	if exit == 0 && !floorOK {
		fmt.Printf("INCONCLUSIVE property=%s %s\n", id, floorMsg)
		return 3
	}
	return exit
}

func oneLine(s string) string {
	s = strings.ReplaceAll(s, "\n", " ")
	if len(s) > 300 {
		s = s[:300] + "..."
	}
	return s
}

func sanitize(s string) string {
	r := strings.NewReplacer("/", "_", " ", "_", ":", "_", "(", "", ")", "", "*", "")
	return r.Replace(s)
}

// splitRaceBlocks splits a race log into report blocks.
func splitRaceBlocks(s string) []string {
	var out []string
	parts := strings.Split(s, "==================")
	for _, p := range parts {
		if strings.Contains(p, "WARNING: DATA RACE") {
			out = append(out, strings.TrimSpace(p))
		}
	}
	return out
}

// RaceAccessStacks returns the function names of the two access stacks of a report.
func RaceAccessStacks(blk string) [2][]string {
	var res [2][]string
	idx := -1
	for _, l := range strings.Split(blk, "\n") {
		t := strings.TrimSpace(l)
		switch {
		case strings.HasPrefix(t, "Read at") || strings.HasPrefix(t, "Write at") || strings.HasPrefix(t, "Previous read at") || strings.HasPrefix(t, "Previous write at"):
			idx++
			continue
		case strings.HasPrefix(t, "Goroutine ") || t == "":
			if strings.HasPrefix(t, "Goroutine ") {
				idx = 99
			}
			continue
		}
		if idx >= 0 && idx < 2 && !strings.HasPrefix(t, "/") && strings.Contains(t, "(") {
			fn := t
			if k := strings.Index(fn, "("); k > 0 && !strings.HasPrefix(fn, "(") {
				// keep receiver forms like pkg.(*T).M
				if j := strings.LastIndex(fn, ")"); j > k {
					fn = fn[:strings.LastIndex(fn, "(")]
				}
			}
			res[idx] = append(res[idx], fn)
		}
	}
	return res
}

func raceEntryPair(blk string) string {
	st := RaceAccessStacks(blk)
	a, b := "?", "?"
	if len(st[0]) > 0 {
		a = st[0][0]
	}
	if len(st[1]) > 0 {
		b = st[1][0]
	}
	if a > b {
		a, b = b, a
	}
	return a + " <> " + b
}

// RunSingle runs one case in-process and prints its result (stderr).
func RunSingle(id, tier string, seed uint64, n int, root string) int {
	ck := Lookup(id)
	if ck == nil {
		fmt.Fprintln(os.Stderr, "unknown check", id)
		return 2
	}
	r := runOne(ck, tier, seed, n, LoadKnown(root).sigs(id), func(m string) { fmt.Fprintln(os.Stderr, "crash-context:", m) })
	b, _ := json.MarshalIndent(r, "", " ")
	fmt.Fprintln(os.Stderr, string(b))
	if r.Verdict == Violated {
		return 1
	}
	return 0
}
