package harness

import (
	"encoding/json"
	"errors"
	"fmt"
	"math/rand"
	"sync"

	"github.com/weedbox/pokerface"
	pt "github.com/weedbox/pokertable"
	"github.com/weedbox/syncsaga"
)

type syncsagaRG = syncsaga.ReadyGroup

// BCall is one recorded game-backend call.
type BCall struct {
	N              int                    `json:"n"`
	Kind           string                 `json:"kind"`
	Arg            int64                  `json:"arg,omitempty"`
	InID           string                 `json:"in,omitempty"` // GameID/UpdatedAt of the input state
	InCP           int                    `json:"in_cp"`        // current player of the input state
	InEv           string                 `json:"in_ev,omitempty"`
	OutID          string                 `json:"out,omitempty"`
	OutEv          string                 `json:"out_ev,omitempty"`
	Err            string                 `json:"err,omitempty"`
	Inject         bool                   `json:"inject,omitempty"`
	ReplyLost      bool                   `json:"reply_lost,omitempty"`
	StateWithError bool                   `json:"state_with_error,omitempty"`
	Mono           int64                  `json:"mono"`
	Out            *pokerface.GameState   `json:"-"`
	Opts           *pokerface.GameOptions `json:"-"`
}

func gsID(gs *pokerface.GameState) string {
	if gs == nil {
		return "<nil>"
	}
	return fmt.Sprintf("%s/%d", gs.GameID, gs.UpdatedAt)
}

var ErrInjected = errors.New("harness: injected backend failure")

// RigBackend wraps the native backend: it can replace the deck after CreateGame,
// records every call, and can inject failures.
type RigBackend struct {
	inner  pt.GameBackend
	mu     sync.Mutex
	Calls  []*BCall
	DeckFn func(opts *pokerface.GameOptions, shuffled []string) []string // nil = keep engine shuffle
	// Fault decides whether call number n (0-based, over the backend's life) of kind k fails before delegating.
	Fault func(n int, kind string) bool
	// ReplyLost (optional): for an injected fault, whether the inner backend is called first and its reply discarded.
	ReplyLost func(n int, kind string) bool
	// StateWithError (optional): for an injected fault, whether the backend answers with the computed state AND the
	// error (a remote engine that reports a failure together with a body); the caller must go by the error.
	StateWithError func(n int, kind string) bool
	n              int
}

func NewRigBackend() *RigBackend { return &RigBackend{inner: pt.NewNativeGameBackend()} }

func (b *RigBackend) rec(kind string, arg int64, in *pokerface.GameState, fn func() (*pokerface.GameState, error), opts ...*pokerface.GameOptions) (*pokerface.GameState, error) {
	b.mu.Lock()
	n := b.n
	b.n++
	c := &BCall{N: n, Kind: kind, Arg: arg, InCP: -1, Mono: Mono()}
	if len(opts) > 0 {
		c.Opts = opts[0]
	}
	if in != nil {
		c.InID = gsID(in)
		c.InCP = in.Status.CurrentPlayer
		c.InEv = in.Status.CurrentEvent
	}
	b.Calls = append(b.Calls, c)
	f := b.Fault
	b.mu.Unlock()
	if f != nil && f(n, kind) {
		c.Err = ErrInjected.Error()
		c.Inject = true
		if b.StateWithError != nil && b.StateWithError(n, kind) {
			c.StateWithError = true
			out, _ := fn()
			return out, ErrInjected
		}
		if b.ReplyLost != nil && b.ReplyLost(n, kind) {
			// the backend did the work and the reply got lost (a remote backend timing out): the caller sees an error
			c.ReplyLost = true
			fn()
		}
		return nil, ErrInjected
	}
	out, err := fn()
	b.mu.Lock()
	if err != nil {
		c.Err = err.Error()
	} else {
		c.OutID = gsID(out)
		c.OutEv = out.Status.CurrentEvent
		c.Out = out
	}
	b.mu.Unlock()
	return out, err
}

// Snapshot returns a copy of the call list.
func (b *RigBackend) Snapshot() []*BCall {
	b.mu.Lock()
	defer b.mu.Unlock()
	return append([]*BCall{}, b.Calls...)
}

func (b *RigBackend) Count() int {
	b.mu.Lock()
	defer b.mu.Unlock()
	return len(b.Calls)
}

func (b *RigBackend) CreateGame(opts *pokerface.GameOptions) (*pokerface.GameState, error) {
	// keep a deep copy of the options for oracles (C01/C02/C06/C12)
	var o *pokerface.GameOptions
	if raw, e := json.Marshal(opts); e == nil {
		o = &pokerface.GameOptions{}
		json.Unmarshal(raw, o)
	}
	return b.rec("CreateGame", 0, nil, func() (*pokerface.GameState, error) {
		gs, err := b.inner.CreateGame(opts)
		if err == nil && b.DeckFn != nil {
			gs.Meta.Deck = b.DeckFn(opts, gs.Meta.Deck)
		}
		return gs, err
	}, o)
}
func (b *RigBackend) ReadyForAll(gs *pokerface.GameState) (*pokerface.GameState, error) {
	return b.rec("ReadyForAll", 0, gs, func() (*pokerface.GameState, error) { return b.inner.ReadyForAll(gs) })
}
func (b *RigBackend) PayAnte(gs *pokerface.GameState) (*pokerface.GameState, error) {
	return b.rec("PayAnte", 0, gs, func() (*pokerface.GameState, error) { return b.inner.PayAnte(gs) })
}
func (b *RigBackend) PayBlinds(gs *pokerface.GameState) (*pokerface.GameState, error) {
	return b.rec("PayBlinds", 0, gs, func() (*pokerface.GameState, error) { return b.inner.PayBlinds(gs) })
}
func (b *RigBackend) Next(gs *pokerface.GameState) (*pokerface.GameState, error) {
	return b.rec("Next", 0, gs, func() (*pokerface.GameState, error) { return b.inner.Next(gs) })
}
func (b *RigBackend) Pay(gs *pokerface.GameState, chips int64) (*pokerface.GameState, error) {
	return b.rec("Pay", chips, gs, func() (*pokerface.GameState, error) { return b.inner.Pay(gs, chips) })
}
func (b *RigBackend) Fold(gs *pokerface.GameState) (*pokerface.GameState, error) {
	return b.rec("Fold", 0, gs, func() (*pokerface.GameState, error) { return b.inner.Fold(gs) })
}
func (b *RigBackend) Check(gs *pokerface.GameState) (*pokerface.GameState, error) {
	return b.rec("Check", 0, gs, func() (*pokerface.GameState, error) { return b.inner.Check(gs) })
}
func (b *RigBackend) Call(gs *pokerface.GameState) (*pokerface.GameState, error) {
	return b.rec("Call", 0, gs, func() (*pokerface.GameState, error) { return b.inner.Call(gs) })
}
func (b *RigBackend) Allin(gs *pokerface.GameState) (*pokerface.GameState, error) {
	return b.rec("Allin", 0, gs, func() (*pokerface.GameState, error) { return b.inner.Allin(gs) })
}
func (b *RigBackend) Bet(gs *pokerface.GameState, chips int64) (*pokerface.GameState, error) {
	return b.rec("Bet", chips, gs, func() (*pokerface.GameState, error) { return b.inner.Bet(gs, chips) })
}
func (b *RigBackend) Raise(gs *pokerface.GameState, chipLevel int64) (*pokerface.GameState, error) {
	return b.rec("Raise", chipLevel, gs, func() (*pokerface.GameState, error) { return b.inner.Raise(gs, chipLevel) })
}
func (b *RigBackend) Pass(gs *pokerface.GameState) (*pokerface.GameState, error) {
	return b.rec("Pass", 0, gs, func() (*pokerface.GameState, error) { return b.inner.Pass(gs) })
}

// ---- decks ------------------------------------------------------------------

// SeededDeck returns a DeckFn shuffling with the given PRNG (deterministic per case).
func SeededDeck(r *rand.Rand) func(*pokerface.GameOptions, []string) []string {
	return func(opts *pokerface.GameOptions, d []string) []string {
		c := append([]string{}, opts.Deck...)
		if len(c) == 0 {
			c = append([]string{}, d...)
		}
		// canonical order first so the result is a function of the PRNG only
		sortStrings(c)
		r.Shuffle(len(c), func(i, j int) { c[i], c[j] = c[j], c[i] })
		return c
	}
}

func sortStrings(a []string) {
	for i := 1; i < len(a); i++ {
		for j := i; j > 0 && a[j-1] > a[j]; j-- {
			a[j-1], a[j] = a[j], a[j-1]
		}
	}
}

// layout builds a deck whose first cards are: hole[0], hole[1], ... then burn, flop(3), burn, turn, burn, river.
func layout(full []string, holes [][]string, board []string) []string {
	used := map[string]bool{}
	out := []string{}
	for _, h := range holes {
		for _, c := range h {
			out = append(out, c)
			used[c] = true
		}
	}
	for _, c := range board {
		used[c] = true
	}
	rest := []string{}
	for _, c := range full {
		if !used[c] {
			rest = append(rest, c)
		}
	}
	pop := func() string { c := rest[0]; rest = rest[1:]; return c }
	out = append(out, pop())
	out = append(out, board[0], board[1], board[2])
	out = append(out, pop())
	out = append(out, board[3])
	out = append(out, pop())
	out = append(out, board[4])
	out = append(out, rest...)
	return out
}

// SplitDeck: the board is an ace-high straight with at most two cards of a suit, so
// every player who reaches showdown ties (standard 52-card deck, hold'em).
func SplitDeck(r *rand.Rand) func(*pokerface.GameOptions, []string) []string {
	return func(opts *pokerface.GameOptions, d []string) []string {
		full := append([]string{}, d...)
		sortStrings(full)
		board := []string{"SA", "HK", "DQ", "CJ", "ST"}
		n := len(opts.Players)
		rest := []string{}
		for _, c := range full {
			if !has(board, c) {
				rest = append(rest, c)
			}
		}
		r.Shuffle(len(rest), func(i, j int) { rest[i], rest[j] = rest[j], rest[i] })
		holes := make([][]string, n)
		k := 0
		for i := 0; i < n; i++ {
			for j := 0; j < opts.HoleCardsCount; j++ {
				holes[i] = append(holes[i], rest[k])
				k++
			}
		}
		return layout(full, holes, board)
	}
}

// RankDeck gives entry order[i] the i-th best pocket pair on a dry low board (52-card hold'em,
// up to 10 players), so showdown strength is strictly ordered: order[0] wins, then order[1], ...
func RankDeck(order []int) func(*pokerface.GameOptions, []string) []string {
	return func(opts *pokerface.GameOptions, d []string) []string {
		full := append([]string{}, d...)
		sortStrings(full)
		n := len(opts.Players)
		if n > 10 || opts.HoleCardsCount != 2 || len(full) != 52 {
			return d
		}
		ranks := []string{"A", "K", "Q", "J", "T", "9", "8", "7", "6", "5"}
		holes := make([][]string, n)
		seen := map[int]bool{}
		k := 0
		for _, idx := range order {
			if idx < 0 || idx >= n || seen[idx] {
				continue
			}
			seen[idx] = true
			holes[idx] = []string{"S" + ranks[k], "H" + ranks[k]}
			k++
		}
		for i := 0; i < n; i++ {
			if !seen[i] {
				holes[i] = []string{"S" + ranks[k], "H" + ranks[k]}
				k++
			}
		}
		board := []string{"D2", "C3", "D4", "C2", "D3"}
		return layout(full, holes, board)
	}
}
