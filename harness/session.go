package harness

import (
	"fmt"
	"math/rand"
	"time"

	pt "github.com/weedbox/pokertable"
)

type PlayerCfg struct {
	ID    string `json:"id"`
	Seat  int    `json:"seat"`
	Chips int64  `json:"chips"`
}

// TableCfg is a generated table configuration.
type TableCfg struct {
	Seats       int         `json:"seats"`
	Mode        string      `json:"mode"`
	Rule        string      `json:"rule"`
	Level       int         `json:"level"`
	Ante        int64       `json:"ante"`
	Dealer      int64       `json:"dealer"`
	SB          int64       `json:"sb"`
	BB          int64       `json:"bb"`
	MinPlayers  int         `json:"min_players"`
	ChipUnit    int64       `json:"min_chip_unit"`
	ActionTime  int         `json:"action_time"`
	Interval    int         `json:"interval"`
	MaxDuration int         `json:"max_duration"`
	Players     []PlayerCfg `json:"players"`
}

func (c TableCfg) chipUnit() int64 {
	if c.ChipUnit > 0 {
		return c.ChipUnit
	}
	return 1
}

func (c TableCfg) Setting(withPlayers bool) pt.TableSetting {
	st := pt.TableSetting{
		TableID: "T",
		Meta: pt.TableMeta{
			CompetitionID:       "COMP",
			Rule:                c.Rule,
			Mode:                c.Mode,
			MaxDuration:         c.MaxDuration,
			TableMaxSeatCount:   c.Seats,
			TableMinPlayerCount: c.MinPlayers,
			MinChipUnit:         c.chipUnit(),
			ActionTime:          c.ActionTime,
		},
		Blind: pt.TableBlindState{Level: c.Level, Ante: c.Ante, Dealer: c.Dealer, SB: c.SB, BB: c.BB},
	}
	if withPlayers {
		for _, p := range c.Players {
			st.JoinPlayers = append(st.JoinPlayers, pt.JoinPlayer{PlayerID: p.ID, RedeemChips: p.Chips, Seat: p.Seat})
		}
	}
	return st
}

// GenOpts biases the table generator.
type GenOpts struct {
	MinSeats, MaxSeats int
	Rules              []string // default: default (mostly) + short_deck
	Modes              []string
	MinPlayers         int // at least this many players (default 2)
	FullTable          bool
	DeepOnly           bool
	ShortStacks        bool // bias to tiny / short stacks
	NoAnte             bool
	Interval           int
	ActionTime         int
	VaryMinCount       bool // table minimum player count 2..4 instead of always 2
	ZeroActionTime     bool // action time 0 (ActionTime 0 above means 'default')
	Whales             bool // every stack lies above 2^53 and is odd (not representable as a float64): chips must stay exact integers
	MTTPastDuration    bool // half of the mtt tables are already past their maximum duration (which only ends ct / cash tables)
}

// GenTable derives a configuration from the PRNG.
func GenTable(r *rand.Rand, o GenOpts) TableCfg {
	if o.MinSeats == 0 {
		o.MinSeats = 2
	}
	if o.MaxSeats == 0 {
		o.MaxSeats = 10
	}
	seats := o.MinSeats + r.Intn(o.MaxSeats-o.MinSeats+1)
	rules := o.Rules
	if len(rules) == 0 {
		rules = []string{"default", "default", "default", "default", "short_deck"}
	}
	modes := o.Modes
	if len(modes) == 0 {
		modes = []string{"ct", "mtt", "cash"}
	}
	c := TableCfg{Seats: seats, Mode: modes[r.Intn(len(modes))], Rule: rules[r.Intn(len(rules))], Level: 1 + r.Intn(5), MinPlayers: 2, Interval: o.Interval, ActionTime: o.ActionTime, MaxDuration: 1 << 30}
	if c.ActionTime == 0 {
		c.ActionTime = 10
	}
	if o.ZeroActionTime {
		c.ActionTime = 0
	}
	// the engine never reads the chip unit: stacks that are no multiple of it must be played as they are
	c.ChipUnit = []int64{1, 1, 1, 5, 10, 25, 100}[r.Intn(7)]
	bb := []int64{2, 10, 20, 100, 7}[r.Intn(5)]
	switch r.Intn(6) {
	case 0: // no small blind, nothing is collected (pokerface skips the collection)
		c.SB, c.BB = 0, bb
	case 1: // dealer blind on top
		c.Dealer, c.SB, c.BB = bb/2+1, bb/2, bb
	default:
		c.SB, c.BB = bb/2, bb
	}
	if c.Rule == "short_deck" {
		// typical short deck: ante + button blind
		switch r.Intn(3) {
		case 0:
			c.Dealer, c.SB, c.BB = bb, 0, 0
		case 1:
			c.Dealer, c.SB, c.BB = bb, 0, bb
		}
	}
	if !o.NoAnte && r.Intn(3) == 0 {
		c.Ante = 1 + bb/10
	}
	if c.Rule == "short_deck" && c.Ante == 0 && !o.NoAnte {
		c.Ante = 1 + bb/10
	}
	minP := o.MinPlayers
	if minP < 2 {
		minP = 2
	}
	if minP > seats {
		minP = seats
	}
	n := minP + r.Intn(seats-minP+1)
	if o.FullTable {
		n = seats
	}
	perm := r.Perm(seats)
	for i := 0; i < n; i++ {
		var chips int64
		k := r.Intn(10)
		if o.DeepOnly {
			k = 9
		}
		if o.ShortStacks && k > 4 {
			k -= 5
		}
		unit := bb
		if unit < c.Dealer {
			unit = c.Dealer
		}
		switch {
		case k == 0:
			chips = 1 + r.Int63n(unit)
		case k <= 2:
			chips = unit + r.Int63n(unit*3)
		case k <= 5:
			chips = unit*5 + r.Int63n(unit*20)
		default:
			chips = unit*50 + r.Int63n(unit*150)
		}
		c.Players = append(c.Players, PlayerCfg{ID: fmt.Sprintf("p%d", i), Seat: perm[i], Chips: chips})
	}
	if o.Whales {
		for i := range c.Players {
			c.Players[i].Chips += 1<<53 + 1 + 2*r.Int63n(1000)
		}
	}
	if o.MTTPastDuration && c.Mode == "mtt" && r.Intn(2) == 0 {
		c.MaxDuration = -1
	}
	if o.VaryMinCount {
		c.MinPlayers = []int{2, 2, 3, 4}[r.Intn(4)]
		if c.MinPlayers > n {
			c.MinPlayers = n
		}
	}
	return c
}

// Session is a multi-hand run of one table.
type Session struct {
	S       *Sim
	Rig     *RigBackend
	Cfg     TableCfg
	Hands   []*Hand
	Pending *SetupEv // next hand's set-up that has not been signalled yet
	OnEvent func(e *Ev)
	NextID  int
}

// StartSession creates the table, seats and joins all players, starts the game and
// waits for the first set-up. deck may be nil (seeded shuffle from r).
func StartSession(cfg TableCfg, r *rand.Rand, onEvent func(e *Ev)) (*Session, error) {
	return StartSessionJ(cfg, r, onEvent, 0, 0)
}

// StartSessionJ is StartSession with callback jitter (see SimConfig.Jitter).
func StartSessionJ(cfg TableCfg, r *rand.Rand, onEvent func(e *Ev), jitter float64, jmax time.Duration) (*Session, error) {
	return StartSessionWith(cfg, r, onEvent, func(sc *SimConfig) { sc.Jitter, sc.JitterMax = jitter, jmax })
}

// StartSessionWith is StartSession with a hook that may adjust the driver's configuration (jitter, a synchronous
// subscriber, ...) before the engine is created.
func StartSessionWith(cfg TableCfg, r *rand.Rand, onEvent func(e *Ev), mod func(sc *SimConfig)) (*Session, error) {
	rig := NewRigBackend()
	rig.DeckFn = SeededDeck(rand.New(rand.NewSource(r.Int63())))
	ss := &Session{Rig: rig, Cfg: cfg, OnEvent: onEvent, NextID: len(cfg.Players)}
	mtt := cfg.Mode == "mtt"
	simCfg := SimConfig{Setting: cfg.Setting(mtt), Interval: cfg.Interval, Backend: rig}
	if mod != nil {
		mod(&simCfg)
	}
	s, err := NewSim(simCfg, r.Int63())
	ss.S = s
	if err != nil {
		return ss, err
	}
	if mtt {
		for _, p := range cfg.Players {
			if err := s.Join(p.ID); err != nil {
				return ss, fmt.Errorf("join %s: %w", p.ID, err)
			}
		}
	} else {
		for _, p := range cfg.Players {
			if err := s.Seat(p.ID, p.Seat, p.Chips); err != nil {
				return ss, fmt.Errorf("seat %s: %w", p.ID, err)
			}
		}
		if err := s.TE.StartTableGame(); err != nil {
			return ss, err
		}
	}
	e, ok := s.WaitFor(20*time.Second, func(e *Ev) bool { return e.Kind == EvSetup }, onEvent)
	if !ok {
		return ss, fmt.Errorf("no first set-up within 20s (mode %s)", cfg.Mode)
	}
	ss.Pending = e.Setup
	return ss, nil
}

// SignalPending sends settlement-finished for every pending participant who is still seated-in.
func (ss *Session) SignalPending(order []string) {
	if ss.Pending == nil {
		return
	}
	ids := order
	if ids == nil {
		ids = SetupIDs(ss.Pending)
	}
	for _, id := range ids {
		ss.S.Finish(id)
	}
	ss.Pending = nil
}

// NextHand signals the pending set-up and plays one hand to its settlement and the following set-up / pause.
func (ss *Session) NextHand(sc *Script) *Hand {
	if sc.OnEvent == nil {
		sc.OnEvent = ss.OnEvent
	}
	ss.SignalPending(nil)
	h := ss.S.PlayHand(sc)
	ss.Hands = append(ss.Hands, h)
	ss.Pending = h.Setup
	return h
}

// NewPlayerID returns a fresh player id.
// Every third newcomer gets the upper-case twin of an earlier player's id (p3 / P3): for every look-up of the table,
// the seat manager and the hand these are two different players (round 7).
func (ss *Session) NewPlayerID() string {
	id := fmt.Sprintf("p%d", ss.NextID)
	if ss.NextID%3 == 2 {
		id = fmt.Sprintf("P%d", ss.NextID/2)
	}
	ss.NextID++
	return id
}

// FreeSeats lists unoccupied seats of the engine's table.
func (ss *Session) FreeSeats() []int {
	t := ss.S.TE.GetTable()
	var f []int
	for seat, pi := range t.State.SeatMap {
		if pi == -1 {
			f = append(f, seat)
		}
	}
	return f
}
