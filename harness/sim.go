// Package harness drives the real pokertable engine and records what it does.
package harness

import (
	"encoding/json"
	"errors"
	"fmt"
	"math/rand"
	"runtime"
	"sync"
	"sync/atomic"
	"time"

	"github.com/weedbox/pokerface"
	pt "github.com/weedbox/pokertable"
	ogm "github.com/weedbox/pokertable/open_game_manager"
	"github.com/weedbox/pokertable/seat_manager"
)

// Event kinds recorded in the trace.
const (
	EvTable     = "table"     // OnTableUpdated
	EvState     = "state"     // OnTableStateUpdated (Name = event name)
	EvAction    = "action"    // OnGamePlayerActionUpdated
	EvError     = "error"     // OnTableErrorUpdated
	EvSetup     = "setup"     // gate spy: Setup(gameCount, participants) returned
	EvGateFire  = "gatefire"  // gate ready-callback entered
	EvGateRet   = "gateret"   // gate ready-callback returned
	EvPState    = "pstate"    // OnTablePlayerStateUpdated
	EvReserved  = "reserved"  // OnTablePlayerReserved
	EvAutoEnd   = "autoend"   // OnAutoGameOpenEnd
	EvFirstOpen = "firstopen" // OnReadyOpenFirstTableGame
	EvCall      = "call"      // harness -> engine call issued
	EvRet       = "ret"       // harness -> engine call returned
)

type SetupEv struct {
	GameCount    int            `json:"game_count"`
	Participants map[string]int `json:"participants"`
}

// Ev is one observed event. Table snapshots are private deep copies.
type Ev struct {
	Seq   int                       `json:"seq"`
	Kind  string                    `json:"kind"`
	Name  string                    `json:"name,omitempty"`
	T     *pt.Table                 `json:"-"`
	J     json.RawMessage           `json:"table,omitempty"`
	Act   *pt.TablePlayerGameAction `json:"act,omitempty"`
	Err   string                    `json:"err,omitempty"`
	Setup *SetupEv                  `json:"setup,omitempty"`
	Gate  *ogm.OpenGameState        `json:"gate,omitempty"`
	PS    *pt.TablePlayerState      `json:"ps,omitempty"`
	Mono  int64                     `json:"mono"`
	Wall  int64                     `json:"wall"` // wall clock (unix nanoseconds) when the event was recorded
	Args  string                    `json:"args,omitempty"`
}

var t0 = time.Now()

// Mono returns nanoseconds from one monotonic clock.
func Mono() int64 { return int64(time.Since(t0)) }

type SimConfig struct {
	Setting     pt.TableSetting
	Interval    int
	Backend     pt.GameBackend
	NoAutoSetup bool // do not answer OnReadyOpenFirstTableGame with SetUpTableGame
	NoGateSpy   bool
	// Jitter > 0: with that probability every callback sleeps up to JitterMax before it records (a slow consumer
	// on the engine's own goroutines); widens the windows between the updater, the ready-group goroutines and callers.
	Jitter    float64
	JitterMax time.Duration
	// OnSync, if set, runs synchronously inside the engine's OnTableUpdated callback (on the engine's goroutine,
	// with the live table) before the snapshot is recorded: this is where actors are fed, exactly like the
	// repository's own actor tests do.
	OnSync func(t *pt.Table)
	// OnSyncAfter is like OnSync but runs after the snapshot has been recorded in the trace (a subscriber that may block
	// inside the callback must not hide the snapshot from the monitors)
	OnSyncAfter func(t *pt.Table)
	LightTrace  bool // keep only compact trace (drop raw JSON of old events)
}

// Sim owns one table engine plus the spies around it.
type Sim struct {
	TE   pt.TableEngine
	Cfg  SimConfig
	mu   sync.Mutex // serialises marshal+enqueue so trace order == observation order
	ch   chan *Ev
	seq  int
	Tr   []*Ev // consumed events, in order
	All  []*Ev // every event ever pushed (incl. not yet consumed), guarded by mu
	R    *rand.Rand
	Log  []string
	seen map[string]bool

	autoJoinUpdated int64
	jmu             sync.Mutex
	jr              *rand.Rand
	Calls           int64
	inflight        int64
}

// marshalLive marshals the engine's live table. The engine hands it out by pointer and keeps writing it from other
// goroutines (DESIGN section 1): the encoder can be torn (a slice shrinks under it) and panic. Such a read is simply
// taken again; only a read that is torn three times in a row is let through (and classified by the framework).
func marshalLive(t *pt.Table) (b []byte, err error) {
	for try := 0; ; try++ {
		func() {
			defer func() {
				if r := recover(); r != nil {
					if try >= 2 {
						panic(r)
					}
					b, err = nil, fmt.Errorf("torn read: %v", r)
				}
			}()
			b, err = json.Marshal(t)
		}()
		if err == nil || try >= 2 {
			return b, err
		}
		time.Sleep(50 * time.Microsecond)
	}
}

func cloneTable(t *pt.Table) (*pt.Table, []byte) {
	b, err := marshalLive(t)
	if err != nil {
		return nil, nil
	}
	var c pt.Table
	if err := json.Unmarshal(b, &c); err != nil {
		return nil, b
	}
	return &c, b
}

func (s *Sim) push(e *Ev) {
	e.Mono = Mono()
	e.Wall = time.Now().UnixNano()
	s.seq++
	e.Seq = s.seq
	s.All = append(s.All, e)
	select {
	case s.ch <- e:
	default:
		// queue full: drop from the reaction queue but keep in All
	}
}

func (s *Sim) jitter() {
	if s.Cfg.Jitter <= 0 {
		return
	}
	s.jmu.Lock()
	hit := s.jr.Float64() < s.Cfg.Jitter
	d := time.Duration(0)
	if hit && s.Cfg.JitterMax > 0 {
		d = time.Duration(s.jr.Int63n(int64(s.Cfg.JitterMax)))
	}
	s.jmu.Unlock()
	if hit {
		if d < 20*time.Microsecond {
			runtime.Gosched()
		} else {
			time.Sleep(d)
		}
	}
}

func (s *Sim) pushTable(kind, name string, t *pt.Table) {
	s.jitter()
	s.mu.Lock()
	defer s.mu.Unlock()
	c, b := cloneTable(t)
	s.push(&Ev{Kind: kind, Name: name, T: c, J: b})
}

func (s *Sim) pushEv(e *Ev) {
	if e.Kind != EvCall && e.Kind != EvRet {
		s.jitter()
	}
	s.mu.Lock()
	defer s.mu.Unlock()
	s.push(e)
}

type gateSpy struct {
	inner ogm.OpenGameManager
	s     *Sim
}

func (o *gateSpy) Ready(id string) error { return o.inner.Ready(id) }
func (o *gateSpy) Setup(gc int, p map[string]int) {
	cp := map[string]int{}
	for k, v := range p {
		cp[k] = v
	}
	o.inner.Setup(gc, p)
	o.s.pushEv(&Ev{Kind: EvSetup, Setup: &SetupEv{gc, cp}})
}
func (o *gateSpy) GetState() ogm.OpenGameState { return o.inner.GetState() }
func (o *gateSpy) PrintState()                 { o.inner.PrintState() }

// NewSim creates the engine, registers all callbacks and creates the table.
func NewSim(cfg SimConfig, seed int64) (*Sim, error) {
	s := &Sim{Cfg: cfg, R: rand.New(rand.NewSource(seed)), seen: map[string]bool{}, ch: make(chan *Ev, 1<<16), jr: rand.New(rand.NewSource(seed ^ 0x5eed))}
	opts := pt.NewTableEngineOptions()
	opts.GameContinueInterval = cfg.Interval
	if seed&1 == 1 {
		// options built as a literal: the open-game timeout field stays at its zero value. The engine documents a fixed
		// 2 s gate timeout and never reads the field, so every value is a legitimate configuration.
		opts = &pt.TableEngineOptions{GameContinueInterval: cfg.Interval}
	}
	be := cfg.Backend
	if be == nil {
		be = pt.NewNativeGameBackend()
	}
	te := pt.NewTableEngine(opts, pt.WithGameBackend(be))
	s.TE = te
	te.OnTableUpdated(func(t *pt.Table) {
		if cfg.OnSync != nil {
			cfg.OnSync(t)
		}
		s.pushTable(EvTable, "", t)
		if cfg.OnSyncAfter != nil {
			cfg.OnSyncAfter(t)
		}
	})
	te.OnTableStateUpdated(func(ev string, t *pt.Table) { s.pushTable(EvState, ev, t) })
	te.OnTableErrorUpdated(func(t *pt.Table, err error) {
		es := "<nil>"
		if err != nil {
			es = err.Error()
		}
		s.pushEv(&Ev{Kind: EvError, Err: es})
	})
	te.OnGamePlayerActionUpdated(func(a pt.TablePlayerGameAction) {
		aa := a
		aa.Positions = append([]string{}, a.Positions...)
		s.pushEv(&Ev{Kind: EvAction, Act: &aa})
	})
	te.OnTablePlayerStateUpdated(func(cid, tid string, ps *pt.TablePlayerState) {
		c := *ps
		s.pushEv(&Ev{Kind: EvPState, PS: &c})
	})
	te.OnTablePlayerReserved(func(cid, tid string, ps *pt.TablePlayerState) {
		c := *ps
		s.pushEv(&Ev{Kind: EvReserved, PS: &c})
	})
	te.OnAutoGameOpenEnd(func(cid, tid string) { s.pushEv(&Ev{Kind: EvAutoEnd}) })
	te.OnReadyOpenFirstTableGame(func(cid, tid string, gc int, ps []*pt.TablePlayerState) {
		parts := map[string]int{}
		for i, p := range ps {
			parts[p.PlayerID] = i
		}
		s.pushEv(&Ev{Kind: EvFirstOpen, Setup: &SetupEv{gc, parts}})
		if !cfg.NoAutoSetup {
			te.SetUpTableGame(gc, parts)
		}
	})
	if _, err := te.CreateTable(cfg.Setting); err != nil {
		return s, err
	}
	if !cfg.NoGateSpy {
		inner := pt.VerifOpenGameManager(te)
		ogm.VerifWrapReadyCallback(inner, func(orig func(ogm.OpenGameState)) func(ogm.OpenGameState) {
			return func(st ogm.OpenGameState) {
				cp := ogm.OpenGameState{Timeout: st.Timeout, GameCount: st.GameCount, Participants: map[string]*ogm.OpenGameParticipant{}}
				for k, v := range st.Participants {
					vv := *v
					cp.Participants[k] = &vv
				}
				s.pushEv(&Ev{Kind: EvGateFire, Gate: &cp})
				orig(st)
				s.pushEv(&Ev{Kind: EvGateRet, Gate: &cp})
			}
		})
		pt.VerifSetOpenGameManager(te, &gateSpy{inner: inner, s: s})
	}
	if rg := pt.VerifAutoJoinGroup(te); rg != nil {
		rg.OnUpdated(func(_ *syncsagaRG) { atomic.AddInt64(&s.autoJoinUpdated, 1) })
	}
	return s, nil
}

func (s *Sim) Logf(f string, a ...interface{}) {
	s.Log = append(s.Log, fmt.Sprintf(f, a...))
}

// Next waits for the next event (up to d).
func (s *Sim) Next(d time.Duration) (*Ev, bool) {
	select {
	case e := <-s.ch:
		s.Tr = append(s.Tr, e)
		return e, true
	default:
	}
	tm := time.NewTimer(d)
	defer tm.Stop()
	select {
	case e := <-s.ch:
		s.Tr = append(s.Tr, e)
		return e, true
	case <-tm.C:
		return nil, false
	}
}

// Pending reports whether unconsumed events are queued.
func (s *Sim) Pending() int { return len(s.ch) }

// Table returns a private copy of the engine's current table.
func (s *Sim) Table() *pt.Table {
	c, _ := cloneTable(s.TE.GetTable())
	return c
}

// TableJSON returns the engine table's JSON.
func (s *Sim) TableJSON() []byte {
	b, _ := marshalLive(s.TE.GetTable())
	return b
}

// SMJSON returns the seat manager state as JSON (all fields are exported).
func (s *Sim) SMJSON() []byte {
	sm := pt.VerifSeatManager(s.TE)
	if sm == nil {
		return nil
	}
	b, _ := json.Marshal(sm)
	return b
}

type SMState struct {
	MaxSeat      int                              `json:"max_seat"`
	SeatData     map[int]*seat_manager.SeatPlayer `json:"seat_data"`
	DealerSeatID int                              `json:"dealer_seat_id"`
	SBSeatID     int                              `json:"sb_seat_id"`
	BBSeatID     int                              `json:"bb_seat_id"`
	Rule         string                           `json:"rule"`
	IsInit       bool                             `json:"is_init"`
}

func (s *Sim) SM() *SMState {
	var st SMState
	if err := json.Unmarshal(s.SMJSON(), &st); err != nil {
		return nil
	}
	return &st
}

// ---- recorded calls -------------------------------------------------------

func (s *Sim) call(op, args string, fn func() error) error {
	atomic.AddInt64(&s.Calls, 1)
	atomic.AddInt64(&s.inflight, 1)
	s.pushEv(&Ev{Kind: EvCall, Name: op, Args: args})
	err := fn()
	es := ""
	if err != nil {
		es = err.Error()
	}
	s.pushEv(&Ev{Kind: EvRet, Name: op, Args: args, Err: es})
	atomic.AddInt64(&s.inflight, -1)
	return err
}

var ErrPanic = errors.New("harness: engine panicked")

// safe runs fn and converts a panic into ErrPanic (the panic value is logged).
func (s *Sim) safe(fn func() error) (err error) {
	defer func() {
		if r := recover(); r != nil {
			s.Logf("PANIC: %v", r)
			err = fmt.Errorf("%w: %v", ErrPanic, r)
		}
	}()
	return fn()
}

func (s *Sim) Reserve(id string, seat int, chips int64) error {
	return s.call("reserve", fmt.Sprintf("%s seat=%d chips=%d", id, seat, chips), func() error {
		return s.safe(func() error {
			return s.TE.PlayerReserve(pt.JoinPlayer{PlayerID: id, RedeemChips: chips, Seat: seat})
		})
	})
}

// Join calls PlayerJoin and then waits until the auto-join ready group has
// processed the resulting signal (hazard H1: syncsaga recursive RLock).
func (s *Sim) Join(id string) error {
	rg := pt.VerifAutoJoinGroup(s.TE)
	expect := false
	if rg != nil {
		if idx := PlayerIdx(s.TE.GetTable(), id); idx >= 0 && !s.TE.GetTable().State.PlayerStates[idx].IsIn {
			if ready, ok := rg.GetParticipantStates()[int64(idx)]; ok && !ready {
				expect = true
			}
		}
	}
	before := atomic.LoadInt64(&s.autoJoinUpdated)
	err := s.call("join", id, func() error { return s.safe(func() error { return s.TE.PlayerJoin(id) }) })
	if expect && err == nil {
		dl := time.Now().Add(2 * time.Second)
		for atomic.LoadInt64(&s.autoJoinUpdated) == before && time.Now().Before(dl) {
			time.Sleep(50 * time.Microsecond)
		}
		// the group's completion callback runs on another goroutine; give it a moment
		time.Sleep(200 * time.Microsecond)
	}
	return err
}

func (s *Sim) Seat(id string, seat int, chips int64) error {
	if err := s.Reserve(id, seat, chips); err != nil {
		return err
	}
	return s.Join(id)
}

func (s *Sim) Redeem(id string, chips int64) error {
	return s.call("redeem", fmt.Sprintf("%s chips=%d", id, chips), func() error {
		return s.safe(func() error { return s.TE.PlayerRedeemChips(pt.JoinPlayer{PlayerID: id, RedeemChips: chips}) })
	})
}

func (s *Sim) Leave(ids ...string) error {
	return s.call("leave", fmt.Sprint(ids), func() error { return s.safe(func() error { return s.TE.PlayersLeave(ids) }) })
}

func (s *Sim) Update(joins []pt.JoinPlayer, leaves []string) (map[string]int, error) {
	var m map[string]int
	err := s.call("update", fmt.Sprintf("join=%v leave=%v", joins, leaves), func() error {
		return s.safe(func() error {
			var e error
			m, e = s.TE.UpdateTablePlayers(joins, leaves)
			return e
		})
	})
	return m, err
}

func (s *Sim) Finish(id string) error {
	return s.call("finish", id, func() error { return s.safe(func() error { return s.TE.PlayerSettlementFinish(id) }) })
}

// Do submits one game action.
func (s *Sim) Do(pid, act string, chips int64) error {
	return s.call("act:"+act, fmt.Sprintf("%s %d", pid, chips), func() error {
		return s.safe(func() error { return DoAction(s.TE, pid, act, chips) })
	})
}

// DoBounded is Do with a bound on how long the call may take; returned=false means the call is still blocked
// inside the engine after wait (the goroutine is left behind).
func (s *Sim) DoBounded(pid, act string, chips int64, wait time.Duration) (err error, returned bool) {
	ch := make(chan error, 1)
	go func() { ch <- s.Do(pid, act, chips) }()
	select {
	case err = <-ch:
		return err, true
	case <-time.After(wait):
		return nil, false
	}
}

// LockHeldFor reports whether the engine lock was found held at every one of n probes spaced gap apart.
func (s *Sim) LockHeldFor(n int, gap time.Duration) bool {
	for i := 0; i < n; i++ {
		if !pt.VerifEngineLockHeld(s.TE) {
			return false
		}
		time.Sleep(gap)
	}
	return true
}

func DoAction(te pt.TableEngine, pid, act string, chips int64) error {
	switch act {
	case "ready":
		return te.PlayerReady(pid)
	case "pay":
		return te.PlayerPay(pid, chips)
	case "bet":
		return te.PlayerBet(pid, chips)
	case "raise":
		return te.PlayerRaise(pid, chips)
	case "call":
		return te.PlayerCall(pid)
	case "allin":
		return te.PlayerAllin(pid)
	case "check":
		return te.PlayerCheck(pid)
	case "fold":
		return te.PlayerFold(pid)
	case "pass":
		return te.PlayerPass(pid)
	}
	return fmt.Errorf("unknown act %s", act)
}

var AllActions = []string{"ready", "pay", "bet", "raise", "call", "allin", "check", "fold", "pass"}

// ---- policies -------------------------------------------------------------

// Policy chooses the current player's move. t is the snapshot the decision is based on.
type Policy func(s *Sim, t *pt.Table, gp int, pid string, p *pokerface.PlayerState) (string, int64)

func has(a []string, x string) bool {
	for _, y := range a {
		if y == x {
			return true
		}
	}
	return false
}

func sizing(s *Sim, gs *pokerface.GameState, p *pokerface.PlayerState, a string) int64 {
	switch a {
	case "bet":
		lo, hi := gs.Status.MiniBet, p.InitialStackSize
		if hi <= lo {
			return hi
		}
		if s.R.Intn(3) == 0 {
			return lo
		}
		return lo + s.R.Int63n(hi-lo)
	case "raise":
		lo, hi := gs.Status.CurrentWager+gs.Status.PreviousRaiseSize, p.InitialStackSize
		if hi <= lo {
			return hi
		}
		if s.R.Intn(3) == 0 {
			return lo
		}
		return lo + s.R.Int63n(hi-lo)
	}
	return 0
}

func RandomPolicy(s *Sim, t *pt.Table, gp int, pid string, p *pokerface.PlayerState) (string, int64) {
	a := p.AllowedActions[s.R.Intn(len(p.AllowedActions))]
	return a, sizing(s, t.State.GameState, p, a)
}

// WeightedPolicy builds a policy preferring actions by weight.
func WeightedPolicy(w map[string]int) Policy {
	return func(s *Sim, t *pt.Table, gp int, pid string, p *pokerface.PlayerState) (string, int64) {
		tot := 0
		for _, a := range p.AllowedActions {
			tot += w[a] + 1
		}
		r := s.R.Intn(tot)
		for _, a := range p.AllowedActions {
			r -= w[a] + 1
			if r < 0 {
				return a, sizing(s, t.State.GameState, p, a)
			}
		}
		a := p.AllowedActions[0]
		return a, sizing(s, t.State.GameState, p, a)
	}
}

var (
	CallStation = WeightedPolicy(map[string]int{"call": 40, "check": 40, "pass": 100})
	Maniac      = WeightedPolicy(map[string]int{"allin": 30, "raise": 20, "bet": 20, "call": 10, "pass": 100})
	Nit         = WeightedPolicy(map[string]int{"fold": 40, "check": 40, "pass": 100})
	Aggro       = WeightedPolicy(map[string]int{"raise": 40, "bet": 40, "call": 10, "fold": 10, "pass": 100})
)

func PickPolicy(r *rand.Rand) (string, Policy) {
	switch r.Intn(6) {
	case 0:
		return "callstation", CallStation
	case 1:
		return "maniac", Maniac
	case 2:
		return "nit", Nit
	case 3:
		return "aggro", Aggro
	}
	return "random", RandomPolicy
}

// ---- hand driver ----------------------------------------------------------

type ActRec struct {
	PID   string `json:"pid"`
	GP    int    `json:"gp"`
	Act   string `json:"act"`
	Chips int64  `json:"chips,omitempty"`
	Err   string `json:"err,omitempty"`
	Round string `json:"round,omitempty"`
	Seq   int    `json:"seq"` // trace seq of the snapshot the action answered
}

// Hand is everything observed about one hand.
type Hand struct {
	GameCount int
	Opened    *Ev   // first snapshot with status opened for this game count
	FirstPlay *Ev   // first snapshot carrying the hand state
	Snaps     []*Ev // all table snapshots of the hand (table events only)
	Settled   *Ev
	Setup     *SetupEv // next hand's setup (if seen)
	SetupEv   *Ev
	Paused    *Ev
	Errors    []string
	Acts      []ActRec
	ActEvs    []*Ev
	Timeout   bool
	AutoEnd   bool
	Closed    bool
}

func (h *Hand) Roster() []string {
	if h.Opened == nil || h.Opened.T == nil {
		return nil
	}
	t := h.Opened.T
	r := make([]string, 0, len(t.State.GamePlayerIndexes))
	for _, pi := range t.State.GamePlayerIndexes {
		if pi >= 0 && pi < len(t.State.PlayerStates) {
			r = append(r, t.State.PlayerStates[pi].PlayerID)
		} else {
			r = append(r, "?")
		}
	}
	return r
}

// Script customises PlayHand.
type Script struct {
	Policy          Policy
	OnEvent         func(e *Ev)                                       // every consumed event
	BeforeAct       func(e *Ev, gp int, pid string) bool              // at Q-turn before the policy move; return false to skip the policy move
	AfterAct        func(e *Ev, gp int, pid, act string, err error)   // right after the policy move's call has returned (the resulting state may not be published yet)
	OnRequest       func(e *Ev, kind string, asked []string) []string // ready/ante/blinds: return the ids that respond (in that order); nil = all asked in order
	MaxWait         time.Duration
	StopAfterSettle bool        // return right after the settled snapshot (do not wait for setup/pause)
	Stop            func() bool // polled: return from PlayHand as soon as it reports true
}

func pidOf(t *pt.Table, gp int) string {
	if gp < 0 || gp >= len(t.State.GamePlayerIndexes) {
		return ""
	}
	pi := t.State.GamePlayerIndexes[gp]
	if pi < 0 || pi >= len(t.State.PlayerStates) {
		return ""
	}
	return t.State.PlayerStates[pi].PlayerID
}

// PidOf is exported for oracles.
func PidOf(t *pt.Table, gp int) string { return pidOf(t, gp) }

// Independent re-implementations of the table's own look-up helpers: the monitors must not judge the engine with
// the engine's own (possibly changed) code.

// GameIdx returns the hand entry of player id on table t, or -1.
func GameIdx(t *pt.Table, id string) int {
	for gp, pi := range t.State.GamePlayerIndexes {
		if pi >= 0 && pi < len(t.State.PlayerStates) && t.State.PlayerStates[pi].PlayerID == id {
			return gp
		}
	}
	return -1
}

// PlayerIdx returns the index of player id in the table's player list, or -1.
func PlayerIdx(t *pt.Table, id string) int {
	for i, ps := range t.State.PlayerStates {
		if ps.PlayerID == id {
			return i
		}
	}
	return -1
}

// AliveCount is the number of seated players with chips.
func AliveCount(t *pt.Table) int {
	n := 0
	for _, ps := range t.State.PlayerStates {
		if ps.Bankroll > 0 {
			n++
		}
	}
	return n
}

// PlayHand consumes events until the running/next hand has settled and the
// engine has either set up the following hand or paused (or nothing happens for MaxWait).
func (s *Sim) PlayHand(sc *Script) *Hand {
	h := &Hand{}
	wait := sc.MaxWait
	if wait == 0 {
		wait = 20 * time.Second
	}
	deadline := time.Now().Add(wait)
	for {
		var e *Ev
		var ok bool
		if sc.Stop != nil {
			if sc.Stop() {
				return h
			}
			e, ok = s.Next(20 * time.Millisecond)
			if !ok {
				if time.Now().After(deadline) {
					h.Timeout = true
					return h
				}
				continue
			}
			deadline = time.Now().Add(wait)
		} else {
			e, ok = s.Next(wait)
			if !ok {
				h.Timeout = true
				return h
			}
		}
		if sc.OnEvent != nil {
			sc.OnEvent(e)
		}
		switch e.Kind {
		case EvError:
			h.Errors = append(h.Errors, e.Err)
		case EvAction:
			h.ActEvs = append(h.ActEvs, e)
		case EvAutoEnd:
			h.AutoEnd = true
			if h.Settled != nil {
				return h
			}
		case EvSetup:
			if h.Settled != nil {
				h.Setup = e.Setup
				h.SetupEv = e
				return h
			}
		case EvTable:
			t := e.T
			if t == nil {
				continue
			}
			switch t.State.Status {
			case pt.TableStateStatus_TableGameOpened:
				if h.Opened == nil {
					h.Opened = e
					h.GameCount = t.State.GameCount
				}
			case pt.TableStateStatus_TablePausing:
				if h.Settled != nil {
					h.Paused = e
					return h
				}
			case pt.TableStateStatus_TableClosed:
				h.Closed = true
				if h.Settled != nil {
					return h
				}
			case pt.TableStateStatus_TableGameSettled:
				if h.Settled == nil {
					h.Settled = e
				}
			}
			if t.State.GameState != nil {
				h.Snaps = append(h.Snaps, e)
				if h.FirstPlay == nil {
					h.FirstPlay = e
				}
			}
		case EvState:
			t := e.T
			if t == nil {
				continue
			}
			if e.Name == pt.TableStateEvent_GameSettled && sc.StopAfterSettle && h.Settled != nil {
				return h
			}
			if e.Name == pt.TableStateEvent_GameUpdated && t.State.GameState != nil &&
				(t.State.Status == pt.TableStateStatus_TableGamePlaying || t.State.Status == pt.TableStateStatus_TableGameOpened) {
				s.react(e, sc, h)
			}
		}
	}
}

func (s *Sim) react(e *Ev, sc *Script, h *Hand) {
	t := e.T
	gs := t.State.GameState
	key := fmt.Sprintf("%s/%d", gs.GameID, gs.UpdatedAt)
	if s.seen[key] {
		return
	}
	s.seen[key] = true
	respond := func(kind string, asked []string, chips func(gp int) int64, act string) {
		order := asked
		if sc.OnRequest != nil {
			if o := sc.OnRequest(e, kind, asked); o != nil {
				order = o
			}
		}
		for _, pid := range order {
			gp := GameIdx(t, pid)
			err := s.Do(pid, act, chips(gp))
			rec := ActRec{PID: pid, GP: gp, Act: act, Chips: chips(gp), Round: kind, Seq: e.Seq}
			if err != nil {
				rec.Err = err.Error()
			}
			h.Acts = append(h.Acts, rec)
		}
	}
	switch gs.Status.CurrentEvent {
	case "ReadyRequested":
		asked := []string{}
		for gp := range gs.Players {
			asked = append(asked, pidOf(t, gp))
		}
		respond("ready", asked, func(int) int64 { return 0 }, "ready")
	case "AnteRequested":
		asked := []string{}
		for gp := range gs.Players {
			asked = append(asked, pidOf(t, gp))
		}
		respond("ante", asked, func(int) int64 { return gs.Meta.Ante }, "pay")
	case "BlindsRequested":
		asked := []string{}
		for gp := range gs.Players {
			if gs.HasAction(gp, "pay") {
				asked = append(asked, pidOf(t, gp))
			}
		}
		respond("blinds", asked, func(gp int) int64 {
			switch {
			case gs.HasPosition(gp, "bb"):
				return gs.Meta.Blind.BB
			case gs.HasPosition(gp, "sb"):
				return gs.Meta.Blind.SB
			}
			return gs.Meta.Blind.Dealer
		}, "pay")
	case "RoundStarted":
		cp := gs.Status.CurrentPlayer
		if cp < 0 || cp >= len(gs.Players) {
			return
		}
		p := gs.Players[cp]
		if len(p.AllowedActions) == 0 {
			return
		}
		pid := pidOf(t, cp)
		if sc.BeforeAct != nil {
			if !sc.BeforeAct(e, cp, pid) {
				return
			}
		}
		pol := sc.Policy
		if pol == nil {
			pol = RandomPolicy
		}
		act, chips := pol(s, t, cp, pid, p)
		err := s.Do(pid, act, chips)
		rec := ActRec{PID: pid, GP: cp, Act: act, Chips: chips, Round: gs.Status.Round, Seq: e.Seq}
		if err != nil {
			rec.Err = err.Error()
		}
		h.Acts = append(h.Acts, rec)
		if sc.AfterAct != nil {
			sc.AfterAct(e, cp, pid, act, err)
		}
	}
}

// SignalAll sends settlement-finished for the given ids (in order).
func (s *Sim) SignalAll(ids []string) {
	for _, id := range ids {
		s.Finish(id)
	}
}

// SetupIDs returns the participants of a setup, ordered by index.
func SetupIDs(su *SetupEv) []string {
	if su == nil {
		return nil
	}
	ids := make([]string, 0, len(su.Participants))
	for id := range su.Participants {
		ids = append(ids, id)
	}
	// order by participant index, then id
	for i := 1; i < len(ids); i++ {
		for j := i; j > 0; j-- {
			a, b := ids[j-1], ids[j]
			if su.Participants[a] > su.Participants[b] || (su.Participants[a] == su.Participants[b] && a > b) {
				ids[j-1], ids[j] = b, a
			} else {
				break
			}
		}
	}
	return ids
}

// WaitFor consumes events until pred returns true (or timeout).
func (s *Sim) WaitFor(d time.Duration, pred func(e *Ev) bool, on func(e *Ev)) (*Ev, bool) {
	dl := time.Now().Add(d)
	for {
		rem := time.Until(dl)
		if rem <= 0 {
			return nil, false
		}
		e, ok := s.Next(rem)
		if !ok {
			return nil, false
		}
		if on != nil {
			on(e)
		}
		if pred(e) {
			return e, true
		}
	}
}

// Drain consumes everything queued right now.
func (s *Sim) Drain(on func(e *Ev)) {
	for {
		select {
		case e := <-s.ch:
			s.Tr = append(s.Tr, e)
			if on != nil {
				on(e)
			}
		default:
			return
		}
	}
}

// TraceTail renders the last n events compactly for a witness.
func (s *Sim) TraceTail(n int) []string {
	s.mu.Lock()
	all := s.All
	s.mu.Unlock()
	if len(all) > n {
		all = all[len(all)-n:]
	}
	out := make([]string, 0, len(all))
	for _, e := range all {
		out = append(out, e.Brief())
	}
	return out
}

func (e *Ev) Brief() string {
	switch e.Kind {
	case EvTable, EvState:
		if e.T == nil {
			return fmt.Sprintf("#%d %s %s <nil>", e.Seq, e.Kind, e.Name)
		}
		st := e.T.State
		g := ""
		if st.GameState != nil {
			g = fmt.Sprintf(" ev=%s round=%s cp=%d", st.GameState.Status.CurrentEvent, st.GameState.Status.Round, st.GameState.Status.CurrentPlayer)
		}
		br := []string{}
		for _, p := range st.PlayerStates {
			f := ""
			if p.IsIn {
				f += "i"
			}
			if p.IsParticipated {
				f += "p"
			}
			br = append(br, fmt.Sprintf("%s@%d:%d%s", p.PlayerID, p.Seat, p.Bankroll, f))
		}
		return fmt.Sprintf("#%d %s %s serial=%d status=%s gc=%d d/sb/bb=%d/%d/%d gpi=%v%s players=%v", e.Seq, e.Kind, e.Name, e.T.UpdateSerial, st.Status, st.GameCount, st.CurrentDealerSeat, st.CurrentSBSeat, st.CurrentBBSeat, st.GamePlayerIndexes, g, br)
	case EvAction:
		return fmt.Sprintf("#%d action %s %s chips=%d seat=%d round=%s gc=%d", e.Seq, e.Act.PlayerID, e.Act.Action, e.Act.Chips, e.Act.Seat, e.Act.Round, e.Act.GameCount)
	case EvSetup, EvFirstOpen:
		return fmt.Sprintf("#%d %s gc=%d parts=%v", e.Seq, e.Kind, e.Setup.GameCount, e.Setup.Participants)
	case EvGateFire, EvGateRet:
		ids := []string{}
		for k := range e.Gate.Participants {
			ids = append(ids, k)
		}
		return fmt.Sprintf("#%d %s gc=%d parts=%v", e.Seq, e.Kind, e.Gate.GameCount, ids)
	case EvCall, EvRet:
		return fmt.Sprintf("#%d %s %s(%s) err=%q", e.Seq, e.Kind, e.Name, e.Args, e.Err)
	case EvPState, EvReserved:
		return fmt.Sprintf("#%d %s %s@%d:%d", e.Seq, e.Kind, e.PS.PlayerID, e.PS.Seat, e.PS.Bankroll)
	}
	return fmt.Sprintf("#%d %s %s %s", e.Seq, e.Kind, e.Name, e.Err)
}

// IsPanic reports whether err came from a recovered engine panic.
func IsPanic(err error) bool { return errors.Is(err, ErrPanic) }

// Peek scans every event recorded so far from index from (consumed or not) without consuming anything and
// returns the number of events recorded.
func (s *Sim) Peek(from int, f func(e *Ev)) int {
	s.mu.Lock()
	all := s.All
	s.mu.Unlock()
	for i := from; i < len(all); i++ {
		f(all[i])
	}
	return len(all)
}
