package checks

import (
	"encoding/json"
	"fmt"
	"math/rand"
	"sync"
	"sync/atomic"
	"time"

	"github.com/weedbox/pokerface"
	pt "github.com/weedbox/pokertable"
	"github.com/weedbox/pokertable/actor"

	h "verif/harness"
)

// C18 — bots only ever make legal moves, and bot tables play out.
// C19/C20 reuse the adapter spy defined here.

type spyCall struct {
	Actor  string `json:"actor"`
	PID    string `json:"pid"`
	Act    string `json:"act"`
	Chips  int64  `json:"chips,omitempty"`
	Err    string `json:"err,omitempty"`
	Mono   int64  `json:"mono"`
	During int64  `json:"during"` // delivery number during which the call was made (0 = outside any delivery)
}

// spyAdapter sits between one actor and the real table-engine adapter.
type spyAdapter struct {
	inner     actor.Adapter
	name      string
	mu        sync.Mutex
	dmu       sync.Mutex
	calls     []spyCall
	delivery  int64 // current delivery number (set while UpdateTableState runs)
	ndeliv    int64
	onUpdate  func(sp *spyAdapter, t *pt.Table, n int64) // before delivering
	after     func(sp *spyAdapter, t *pt.Table, n int64, calls []spyCall)
	copyFirst bool // freeze the view before judging and delivering it
	noForward bool // do not forward actions to the engine (fake adapter for synthetic states)
	gs        *pokerface.GameState
	idx       int
	inCall    func(act string) // runs inside an action call before it returns (what a table does meanwhile)
}

func (s *spyAdapter) SetActor(a actor.Actor) {
	if s.inner != nil {
		s.inner.SetActor(a)
	}
}

func (s *spyAdapter) rec(pid, act string, chips int64, fn func() error) error {
	var err error
	at := h.Mono() // when the runner issued the call (the engine may publish the next state before the call returns)
	if !s.noForward && fn != nil {
		err = fn()
	}
	if s.inCall != nil {
		s.inCall(act)
	}
	c := spyCall{Actor: s.name, PID: pid, Act: act, Chips: chips, Mono: at, During: atomic.LoadInt64(&s.delivery)}
	if err != nil {
		c.Err = err.Error()
	}
	s.mu.Lock()
	s.calls = append(s.calls, c)
	s.mu.Unlock()
	return err
}

func (s *spyAdapter) snapshotCalls() []spyCall {
	s.mu.Lock()
	defer s.mu.Unlock()
	return append([]spyCall{}, s.calls...)
}

func (s *spyAdapter) UpdateTableState(t *pt.Table) error {
	// one delivery at a time per actor (the actor serialises them anyway; the spy's bookkeeping needs the same)
	s.dmu.Lock()
	defer s.dmu.Unlock()
	n := atomic.AddInt64(&s.ndeliv, 1)
	if s.copyFirst {
		// the engine hands out its live table, which other goroutines keep changing: freeze what this actor is
		// going to see, so that the spy judges exactly the view the runner gets (the real adapter copies it again)
		b, err := json.Marshal(t)
		if err != nil {
			return err
		}
		var cp pt.Table
		if err := json.Unmarshal(b, &cp); err != nil {
			return err
		}
		t = &cp
	}
	if s.onUpdate != nil {
		s.onUpdate(s, t, n)
	}
	before := len(s.snapshotCalls())
	atomic.StoreInt64(&s.delivery, n)
	err := s.inner.UpdateTableState(t)
	atomic.StoreInt64(&s.delivery, 0)
	if s.after != nil {
		all := s.snapshotCalls()
		s.after(s, t, n, all[before:])
	}
	return err
}
func (s *spyAdapter) GetGamePlayerIndex(playerID string) int {
	if s.noForward {
		return s.idx
	}
	return s.inner.GetGamePlayerIndex(playerID)
}
func (s *spyAdapter) GetGameState() *pokerface.GameState {
	if s.noForward {
		return s.gs
	}
	return s.inner.GetGameState()
}
func (s *spyAdapter) Pass(p string) error {
	return s.rec(p, "pass", 0, func() error { return s.inner.Pass(p) })
}
func (s *spyAdapter) Ready(p string) error {
	return s.rec(p, "ready", 0, func() error { return s.inner.Ready(p) })
}
func (s *spyAdapter) Pay(p string, c int64) error {
	return s.rec(p, "pay", c, func() error { return s.inner.Pay(p, c) })
}
func (s *spyAdapter) Check(p string) error {
	return s.rec(p, "check", 0, func() error { return s.inner.Check(p) })
}
func (s *spyAdapter) Bet(p string, c int64) error {
	return s.rec(p, "bet", c, func() error { return s.inner.Bet(p, c) })
}
func (s *spyAdapter) Call(p string) error {
	return s.rec(p, "call", 0, func() error { return s.inner.Call(p) })
}
func (s *spyAdapter) Fold(p string) error {
	return s.rec(p, "fold", 0, func() error { return s.inner.Fold(p) })
}
func (s *spyAdapter) Allin(p string) error {
	return s.rec(p, "allin", 0, func() error { return s.inner.Allin(p) })
}
func (s *spyAdapter) Raise(p string, c int64) error {
	return s.rec(p, "raise", c, func() error { return s.inner.Raise(p, c) })
}
func (s *spyAdapter) ExtendTime(p string, d time.Duration) error { return nil }

// legalAmount checks bet / raise / pay sizes against the hand state the bot saw.
func legalAmount(gs *pokerface.GameState, gp int, c spyCall) string {
	p := gs.Players[gp]
	switch c.Act {
	case "bet":
		if c.Chips > p.InitialStackSize || (c.Chips < gs.Status.MiniBet && c.Chips != p.InitialStackSize) || c.Chips <= 0 {
			return fmt.Sprintf("bet %d with stack %d and minimum bet %d", c.Chips, p.InitialStackSize, gs.Status.MiniBet)
		}
	case "raise":
		min := gs.Status.CurrentWager + gs.Status.PreviousRaiseSize
		if c.Chips > p.InitialStackSize || (c.Chips < min && c.Chips != p.InitialStackSize) || c.Chips <= gs.Status.CurrentWager && c.Chips != p.InitialStackSize {
			return fmt.Sprintf("raise to %d with round stack %d, current wager %d, minimum raise level %d", c.Chips, p.InitialStackSize, gs.Status.CurrentWager, min)
		}
	case "pay":
		want := int64(-1)
		switch gs.Status.CurrentEvent {
		case "AnteRequested":
			want = gs.Meta.Ante
		case "BlindsRequested":
			switch {
			case gs.HasPosition(gp, "sb"):
				want = gs.Meta.Blind.SB
			case gs.HasPosition(gp, "bb"):
				want = gs.Meta.Blind.BB
			default:
				want = gs.Meta.Blind.Dealer
			}
		}
		if c.Chips != want {
			return fmt.Sprintf("pay %d, the posted amount is %d (%s)", c.Chips, want, gs.Status.CurrentEvent)
		}
	}
	return ""
}

// c18ConcurrentDelivery: the same view reaches one bot's actor from several goroutines at the same instant (in a
// running system: the hand's updater goroutine plus API calls that publish the table). The bot must answer the
// request once.
func c18ConcurrentDelivery(c *h.Ctx) {
	r := c.R
	br := actor.NewBotRunner("me")
	// the adapter's own idea of the bot's hand entry is deliberately useless (-1: its latest table is from between
	// hands, as happens when deliveries overtake each other): a bot goes by the view it was handed
	sp := &spyAdapter{noForward: true, name: "me", idx: -1}
	a := actor.NewActor()
	a.SetAdapter(sp)
	a.SetRunner(br)
	// first: a hand state delivered on a snapshot that is still "opened" (table-level event right after the open),
	// then on the playing snapshot: the bot is asked, and answers exactly once
	for i, allowed := range [][]string{{"ready"}, {"pay"}, {"check", "allin"}} {
		event := []string{"ReadyRequested", "BlindsRequested", "RoundStarted"}[i]
		t1 := c19Table(allowed, event, []string{"bb"}, 10, int64(100+i))
		t1.State.Status = pt.TableStateStatus_TableGameOpened
		sp.gs = t1.State.GameState
		before := len(sp.snapshotCalls())
		a.UpdateTableState(t1)
		if got := sp.snapshotCalls()[before:]; len(got) != 0 {
			c.Violate("C18/acted-on-a-snapshot-that-is-not-playing", fmt.Sprintf("the bot submitted %v on a snapshot with status opened", got), nil)
			return
		}
		t2 := c19Table(allowed, event, []string{"bb"}, 10, int64(100+i))
		sp.gs = t2.State.GameState
		a.UpdateTableState(t2)
		if got := sp.snapshotCalls()[before:]; len(got) != 1 {
			c.Violate("C18/asked-bot-stayed-silent/state-first-seen-on-an-opened-snapshot", fmt.Sprintf("%s allowed %v was first delivered on a snapshot with status opened and then on the playing snapshot: the bot answered %d times (%v)", event, allowed, len(got), got), nil)
			return
		}
	}
	c.Feature("state-first-seen-on-an-opened-snapshot")
	rounds := 300
	if c.Thorough() {
		rounds = 3000
	}
	workers := 2 + r.Intn(7)
	for round := 0; round < rounds; round++ {
		var allowed []string
		event := "ReadyRequested"
		switch r.Intn(3) {
		case 0:
			allowed = []string{"ready"}
		case 1:
			event, allowed = "RoundStarted", []string{"fold", "call", "allin"}
		case 2:
			event, allowed = "RoundStarted", []string{"check", "allin"}
		}
		t := c19Table(allowed, event, []string{"dealer"}, 10, int64(1000+round))
		sp.gs = t.State.GameState
		before := len(sp.snapshotCalls())
		var wg sync.WaitGroup
		start := make(chan struct{})
		for wkr := 0; wkr < workers; wkr++ {
			b, _ := json.Marshal(t)
			var cp pt.Table
			json.Unmarshal(b, &cp) // every delivery gets its own copy, like the real adapter makes
			wg.Add(1)
			go func() {
				defer wg.Done()
				<-start
				a.UpdateTableState(&cp)
			}()
		}
		close(start)
		wg.Wait()
		got := sp.snapshotCalls()[before:]
		if len(got) != 1 {
			c.Violate("C18/request-answered-more-than-once/concurrent-delivery", fmt.Sprintf("round %d: one view (%s, allowed %v) delivered to the bot's actor from %d goroutines at once was answered %d times: %v", round, event, allowed, workers, len(got), got), nil)
			return
		}
		c.Count("concurrent_delivery_rounds", 1)
	}
	c.Feature("same-view-delivered-concurrently")
	c.Nontrivial()
	c.FP("concurrent-delivery", workers, c.Seed)
	c.Sample(map[string]interface{}{"kind": "same view delivered to one bot from several goroutines at once", "goroutines": workers, "rounds": rounds})
}

func c18Run(c *h.Ctx) {
	if c.Case%20 == 7 {
		c18ConcurrentDelivery(c)
		return
	}
	r := c.R
	humanized := c.Case%20 == 3 // bots that think 0..1 s before a wager (answers come from a timer, outside the delivery)
	gen := h.GenOpts{MinSeats: 2, MaxSeats: 9, MinPlayers: 2, Modes: []string{"ct", "cash"}, ShortStacks: r.Intn(3) > 0}
	cfg := h.GenTable(r, gen)
	if humanized {
		cfg.ActionTime = 2 // thinking time is drawn from [0, action time)
		if len(cfg.Players) > 4 {
			cfg.Players = cfg.Players[:4]
		}
	}
	if r.Intn(4) == 0 { // minimum bet above some stacks
		for i := range cfg.Players {
			if r.Intn(2) == 0 {
				cfg.Players[i].Chips = 1 + r.Int63n(cfg.BB+1)
			}
		}
	}
	var actors []actor.Actor
	var spies []*spyAdapter
	var vmu sync.Mutex
	violate := func(sig, detail string, w interface{}) {
		vmu.Lock()
		defer vmu.Unlock()
		c.Violate(sig, detail, w)
	}
	var asked, silent, redeliv int64
	type seenKey struct {
		gid string
		at  int64
	}
	rig := h.NewRigBackend()
	rig.DeckFn = h.SeededDeck(newRand(r.Int63()))
	var s *h.Sim
	fan := func(t *pt.Table) {
		for _, a := range actors {
			a.GetTable().UpdateTableState(t)
		}
	}
	// in half of the cases the blind level is raised right after every open (from another goroutine: it takes the
	// engine lock as soon as the open has finished): the hand keeps its own amounts, the table's live level differs
	levelUp := r.Intn(2) == 0
	var lastUpGC int64
	var simp *h.Sim
	after := func(t *pt.Table) {
		if !levelUp || simp == nil || t.State.Status != pt.TableStateStatus_TableGameOpened {
			return
		}
		gc := int64(t.State.GameCount)
		if atomic.SwapInt64(&lastUpGC, gc) == gc {
			return
		}
		b := *t.State.BlindState
		go simp.TE.UpdateBlind(b.Level+1, b.Ante*2+1, b.Dealer*2, b.SB*2+1, b.BB*2+1)
	}
	s, err := h.NewSim(h.SimConfig{Setting: cfg.Setting(false), Interval: 0, Backend: rig, OnSync: fan, OnSyncAfter: after}, r.Int63())
	simp = s
	if levelUp {
		c.Feature("level-raised-right-after-every-open")
	}
	if err != nil {
		c.Inconclusive(err.Error())
		return
	}
	witness := func() interface{} {
		all := []spyCall{}
		for _, sp := range spies {
			cs := sp.snapshotCalls()
			if len(cs) > 12 {
				cs = cs[len(cs)-12:]
			}
			all = append(all, cs...)
		}
		return map[string]interface{}{"cfg": cfg, "humanized": humanized, "bot_calls_tail": all, "trace": s.TraceTail(30)}
	}
	for _, pl := range cfg.Players {
		pl := pl
		a := actor.NewActor()
		last := map[string]int64{} // game id -> newest UpdatedAt delivered
		sp := &spyAdapter{inner: actor.NewTableEngineAdapter(s.TE, s.TE.GetTable()), name: pl.ID, copyFirst: true}
		var expect bool
		var expGS *pokerface.GameState
		var expGP int
		sp.onUpdate = func(sp *spyAdapter, t *pt.Table, n int64) {
			expect, expGS, expGP = false, nil, -1
			gs := t.State.GameState
			if gs == nil {
				return
			}
			// a state that arrives on a snapshot which is not playing (e.g. still "opened": table-level event right
			// after the open) asks nobody; it does not make the playing snapshot that carries the same state stale
			if t.State.Status != pt.TableStateStatus_TableGamePlaying {
				return
			}
			fresh := gs.UpdatedAt > last[gs.GameID]
			if fresh {
				last[gs.GameID] = gs.UpdatedAt
			}
			gp := h.GameIdx(t, pl.ID)
			if gp < 0 || gp >= len(gs.Players) || len(gs.Players[gp].AllowedActions) == 0 {
				return
			}
			in := false
			for _, ps := range t.State.PlayerStates {
				if ps.PlayerID == pl.ID && ps.IsIn {
					in = true
				}
			}
			if !in {
				return
			}
			if !fresh {
				atomic.AddInt64(&redeliv, 1)
				return
			}
			// deep copy: the runner filters its own copy
			b, _ := json.Marshal(gs)
			var cp pokerface.GameState
			json.Unmarshal(b, &cp)
			expect, expGS, expGP = true, &cp, gp
		}
		sp.after = func(sp *spyAdapter, t *pt.Table, n int64, calls []spyCall) {
			if humanized {
				return // answers come later from a timer; judged at the end
			}
			if !expect {
				if len(calls) > 0 {
					violate("C18/bot-acted-without-being-asked", fmt.Sprintf("bot %s submitted %v although the delivered view does not ask it to act (or is stale)", pl.ID, calls), witness())
				} else {
					atomic.AddInt64(&silent, 1)
				}
				return
			}
			atomic.AddInt64(&asked, 1)
			if len(calls) != 1 {
				violate("C18/not-exactly-one-action", fmt.Sprintf("bot %s was asked (allowed %v) and submitted %d actions: %v", pl.ID, expGS.Players[expGP].AllowedActions, len(calls), calls), witness())
				return
			}
			cl := calls[0]
			if cl.PID != pl.ID {
				violate("C18/bot-acted-for-another-player", fmt.Sprintf("bot %s submitted %s for %s", pl.ID, cl.Act, cl.PID), witness())
				return
			}
			if cl.Err != "" {
				violate("C18/bot-move-rejected-by-engine/"+cl.Act, fmt.Sprintf("bot %s: %s %d was rejected: %s (allowed %v, round stack %d, current wager %d, previous raise %d, minimum bet %d)", pl.ID, cl.Act, cl.Chips, cl.Err, expGS.Players[expGP].AllowedActions, expGS.Players[expGP].InitialStackSize, expGS.Status.CurrentWager, expGS.Status.PreviousRaiseSize, expGS.Status.MiniBet), witness())
				return
			}
			if !has(expGS.Players[expGP].AllowedActions, cl.Act) {
				violate("C18/bot-chose-action-not-allowed/"+cl.Act, fmt.Sprintf("bot %s chose %s, allowed were %v", pl.ID, cl.Act, expGS.Players[expGP].AllowedActions), witness())
				return
			}
			if why := legalAmount(expGS, expGP, cl); why != "" {
				violate("C18/illegal-amount/"+cl.Act, fmt.Sprintf("bot %s: %s", pl.ID, why), witness())
				return
			}
			c.Feature("bot-action:" + cl.Act)
		}
		a.SetAdapter(sp)
		bot := actor.NewBotRunner(pl.ID)
		bot.Humanized(humanized)
		a.SetRunner(bot)
		actors = append(actors, a)
		spies = append(spies, sp)
	}
	for _, pl := range cfg.Players {
		if err := s.Seat(pl.ID, pl.Seat, pl.Chips); err != nil {
			c.Inconclusive("seat: " + err.Error())
			return
		}
	}
	s.TE.StartTableGame()
	hands := 0
	maxHands := 4 + r.Intn(8)
	if humanized {
		maxHands = 1
		// while the bots think, table-level events keep re-publishing the unchanged hand state
		stopNoise := make(chan struct{})
		defer close(stopNoise)
		go func() {
			for {
				select {
				case <-stopNoise:
					return
				case <-time.After(time.Duration(150+rand.Intn(300)) * time.Millisecond):
					s.TE.PlayerExtendActionDeadline("", 1)
				}
			}
		}()
		c.Feature("table-events-while-bots-think")
	}
	var oldViews []*pt.Table
	for hands <= maxHands && !c.Failed() {
		handWait := 25 * time.Second
		if humanized {
			handWait = 90 * time.Second
		}
		e, ok := s.WaitFor(handWait, func(e *h.Ev) bool {
			if e.Kind == h.EvTable && e.T != nil && e.T.State.GameState != nil && e.T.State.Status == pt.TableStateStatus_TableGamePlaying && len(oldViews) < 6 && r.Intn(5) == 0 {
				oldViews = append(oldViews, e.T)
			}
			return e.Kind == h.EvSetup || (e.Kind == h.EvTable && e.T != nil && e.T.State.Status == pt.TableStateStatus_TablePausing)
		}, nil)
		if !ok {
			vmu.Lock()
			failed := c.Failed()
			vmu.Unlock()
			if !failed {
				rejected := ""
				for _, sp := range spies {
					for _, cl := range sp.snapshotCalls() {
						if cl.Err != "" {
							rejected = fmt.Sprintf("%+v", cl)
						}
					}
				}
				violate("C18/bot-table-did-not-play-out", fmt.Sprintf("a hand played by bots only did not reach settlement within the watchdog (25 s, humanized 90 s) (hands completed so far: %d; last rejected bot move: %s)", hands, rejected), witness())
			}
			return
		}
		if e.Kind != h.EvSetup {
			break // paused: fewer than two bots with chips
		}
		if hands == maxHands {
			break // the last hand has settled (this is the set-up of the one after it)
		}
		if hands > 0 || true {
			// stale views: re-deliver views of earlier states; a bot must not answer them
			for _, ov := range oldViews {
				atomic.AddInt64(&redeliv, 1)
				for i, a := range actors {
					before := len(spies[i].snapshotCalls())
					a.GetTable().UpdateTableState(ov)
					time.Sleep(50 * time.Microsecond)
					if after := spies[i].snapshotCalls(); len(after) != before {
						violate("C18/bot-answered-a-stale-view", fmt.Sprintf("bot %s answered a re-delivered view of an earlier state: %+v", spies[i].name, after[before:]), witness())
						return
					}
				}
				c.Feature("stale-view-redelivered")
			}
			oldViews = nil
		}
		hands++
		s.SignalAll(h.SetupIDs(e.Setup))
		// mid-hand table-level event: re-publishes the unchanged hand state to every bot
		if r.Intn(2) == 0 {
			time.Sleep(time.Duration(r.Intn(1500)) * time.Microsecond)
			s.TE.PlayerExtendActionDeadline("", 1)
			c.Feature("table-event-mid-hand")
		}
	}
	time.Sleep(2 * time.Millisecond)
	if humanized {
		// every call must have been accepted
		for _, sp := range spies {
			for _, cl := range sp.snapshotCalls() {
				if cl.Err != "" {
					violate("C18/bot-move-rejected-by-engine/"+cl.Act, fmt.Sprintf("humanized bot %s: %s %d rejected: %s", sp.name, cl.Act, cl.Chips, cl.Err), witness())
					return
				}
			}
		}
		c.Feature("humanized")
	}
	total := 0
	for _, sp := range spies {
		total += len(sp.snapshotCalls())
	}
	c.Count("bot_calls", int64(total))
	c.Count("asked_deliveries", atomic.LoadInt64(&asked))
	c.Count("silent_deliveries", atomic.LoadInt64(&silent))
	c.Count("stale_or_repeated_deliveries", atomic.LoadInt64(&redeliv))
	c.Count("hands", int64(hands))
	if hands > 0 && total > 0 {
		c.Nontrivial()
	}
	short := false
	for _, pl := range cfg.Players {
		if pl.Chips <= cfg.BB {
			short = true
		}
	}
	if short {
		c.Feature("stack-at-most-one-big-blind")
	}
	c.FP(fmt.Sprintf("%+v", cfg), c.Seed)
	c.Sample(map[string]interface{}{"cfg": cfg, "hands": hands, "bot_calls": total, "asked": asked, "humanized": humanized})
}

func init() {
	h.Register(&h.Check{
		ID:        "C18",
		Level:     "exploration",
		Technique: "runtime monitoring with an adapter spy between every bot and the real engine: per delivered view the spy decides whether the bot is asked (dealt in, allowed actions, view newer than anything delivered before) and checks: exactly one call, for itself, allowed kind, legal amount, accepted by the engine; silence otherwise; stale views are re-delivered on purpose; every bot-only hand must settle",
		Rule: "case = one bot-only table (2..9 bots, CT/cash, default or short deck, ante on/off, SB/BB / dealer-blind / no-SB, stacks from one chip to deep, a quarter of the cases with stacks at or below one big blind) playing 4..11 hands or until fewer than two bots have chips; earlier views are re-delivered between hands and a table-level event re-publishes the hand state mid-hand; one case in twenty uses humanized bots (thinking 0..1 s per wager) while a second goroutine keeps re-publishing the hand state; " +
			"non-trivial = at least one hand was played and the bots made calls; distinct = config + seed",
		Assumptions: []string{"non-humanized bots answer synchronously inside the delivery, so calls made during a delivery belong to it", "a view is stale when an equal or newer state of the same hand was delivered to that bot before on a playing snapshot"},
		Cases:       func(tier string) int { return map[string]int{"quick": 400, "thorough": 6000}[tier] },
		MinNontrivial: func(tier string) int {
			return map[string]int{"quick": 350, "thorough": 5500}[tier]
		},
		RequiredFeatures: func(tier string) []string {
			f := []string{"bot-action:ready", "bot-action:pay", "bot-action:call", "bot-action:raise", "bot-action:bet", "bot-action:allin", "bot-action:fold", "bot-action:check", "bot-action:pass", "stale-view-redelivered", "table-event-mid-hand", "stack-at-most-one-big-blind"}
			f = append(f, "humanized", "table-events-while-bots-think", "same-view-delivered-concurrently", "state-first-seen-on-an-opened-snapshot", "level-raised-right-after-every-open")
			return f
		},
		CaseTimeout: 240e9,
		InProc:      2,
		Run:         c18Run,
	})
}
