package checks

import (
	"fmt"
	"time"

	pt "github.com/weedbox/pokertable"

	h "verif/harness"
)

// C05 — exactly the eligible players are dealt in; newcomers wait for the big blind.
//
// The tracker uses table-visible data only (opened snapshots). "Waiting" is decided against two references
// for the button (the published dealer seat of the new hand and the previous small-blind seat, which is what
// the rotation uses before it knows whether the hand is heads-up); a player is only judged where both agree.

func strictlyBetween(n, from, to, seat int) bool {
	if from < 0 || to < 0 || n <= 0 {
		return false
	}
	if from == to {
		return false
	}
	for k := 1; k < n; k++ {
		x := (from + k) % n
		if x == to {
			return false
		}
		if x == seat {
			return true
		}
	}
	return false
}

type c05Tracker struct {
	W         map[string]int // waiting state: 0 no, 1 yes, 2 not decidable from the statement alone
	prevDealt map[string]bool
	d, s, b   int // button seats in force (last opened hand); -1 before the first hand
	misses    map[string]int
	hands     int
	lastOps   int
	short     bool
	n         int
	stale     map[string]bool
}

// seated is called when a new player has been given a seat (reserved event).
func (tr *c05Tracker) seated(id string, seat int) {
	if _, ok := tr.W[id]; ok {
		return // re-buy of a seated player: nothing is re-evaluated
	}
	tr.W[id] = 0
	if tr.b >= 0 && !tr.short && strictlyBetween(tr.n, tr.d, tr.b, seat) {
		tr.W[id] = 1
	}
}

func (tr *c05Tracker) opened(p *Play, e *h.Ev) {
	c := p.C
	t := e.T
	n := t.Meta.TableMaxSeatCount
	d, b := t.State.CurrentDealerSeat, t.State.CurrentBBSeat
	short := t.Meta.Rule == "short_deck"
	w := func() interface{} {
		m := p.witness().(map[string]interface{})
		m["opened"] = e.Brief()
		m["seat_manager"] = string(p.SS.S.SMJSON())
		m["prev_dealt"] = tr.prevDealt
		m["prev_button_seats"] = []int{tr.d, tr.s, tr.b}
		m["tracker_waiting"] = tr.W
		return m
	}
	first := tr.prevDealt == nil
	dealt := map[string]bool{}
	live := map[string]bool{}
	seats := map[string]int{}
	for _, ps := range t.State.PlayerStates {
		seats[ps.PlayerID] = ps.Seat
		if _, ok := tr.W[ps.PlayerID]; !ok {
			tr.W[ps.PlayerID] = 0
		}
		if ps.IsParticipated {
			dealt[ps.PlayerID] = true
			if !ps.IsIn || ps.Bankroll <= 0 {
				c.Violate("C05/dealt-in-without-seat-or-chips", fmt.Sprintf("hand %d: %s is dealt in with is_in=%v bankroll=%d", t.State.GameCount, ps.PlayerID, ps.IsIn, ps.Bankroll), w())
				return
			}
		}
		if ps.IsIn && ps.Bankroll > 0 {
			live[ps.PlayerID] = true
		}
	}
	for id := range tr.W {
		if _, ok := seats[id]; !ok {
			delete(tr.W, id)
			delete(tr.misses, id)
		}
	}
	// the hand's own player list holds exactly the dealt-in players, once each
	inList := map[string]int{}
	for gp := range t.State.GamePlayerIndexes {
		inList[h.PidOf(t, gp)]++
	}
	for id := range dealt {
		if inList[id] != 1 {
			c.Violate("C05/dealt-in-player-not-in-the-hands-list", fmt.Sprintf("hand %d: %s is marked dealt in and appears %d times in the hand's player list %v", t.State.GameCount, id, inList[id], t.State.GamePlayerIndexes), w())
			return
		}
	}
	if len(inList) != len(dealt) {
		c.Violate("C05/hands-list-holds-a-player-not-dealt-in", fmt.Sprintf("hand %d: the hand's player list names %d players, %d are marked dealt in", t.State.GameCount, len(inList), len(dealt)), w())
		return
	}
	if len(dealt) < 2 {
		c.Violate("C05/hand-opened-with-fewer-than-two", fmt.Sprintf("hand %d opened with %d dealt-in players", t.State.GameCount, len(dealt)), w())
		return
	}
	// the rotation re-evaluates everybody who was not eligible when it happened, as if newly seated
	if !first {
		for id, seat := range seats {
			old := tr.W[id]
			if live[id] && old == 0 {
				continue // eligible: not re-evaluated
			}
			if old == 3 {
				tr.stale[id] = true // chips arrived by add-on after the last continue: the seat manager has not seen them yet
			}
			nw := 0
			if !short {
				a := strictlyBetween(n, tr.s, b, seat) // button reference: previous small-blind seat
				f := strictlyBetween(n, d, b, seat)    // button reference: published dealer seat
				switch {
				case a && f:
					nw = 1
				case a != f:
					nw = 2
				}
			}
			if live[id] && old == 2 && nw != 0 {
				nw = 2 // may or may not have been re-evaluated
			}
			tr.W[id] = nw
		}
	}
	certain, unknown, nlive := 0, 0, 0
	for id := range live {
		if tr.stale[id] {
			continue // the seat manager does not know about these chips yet
		}
		nlive++
		switch tr.W[id] {
		case 0:
			certain++
		case 2:
			unknown++
		}
	}
	released := false
	if certain < 2 && nlive >= 2 {
		if unknown == 0 || certain+unknown < 2 {
			// fewer than two players would be dealt in: waiting players are released
			released = true
			for id := range live {
				if !tr.stale[id] {
					tr.W[id] = 0
				}
			}
			c.Feature("waiting-players-released")
		} else {
			for id := range live { // cannot tell whether a release happened: take this open as observed
				tr.W[id] = 2
			}
		}
	}
	waiting := 0
	for id := range seats {
		seat := seats[id]
		if !live[id] {
			continue
		}
		isDealt := dealt[id]
		if !isDealt {
			waiting++
		}
		if tr.stale[id] {
			// not judged at this open (the statement names re-buy, not add-on, for busted players); from the
			// next open on the usual rules apply, and the three-hand bound applies throughout
			delete(tr.stale, id)
			c.Feature("not-judged:addon-to-busted-player")
			if !isDealt {
				tr.misses[id]++
			} else {
				tr.W[id] = 0
				tr.misses[id] = 0
			}
			continue
		}
		switch tr.W[id] {
		case 0:
			if !isDealt {
				sig := "C05/eligible-player-not-dealt-in"
				if first {
					sig += "/first-hand"
				} else if tr.prevDealt[id] {
					sig = "C05/player-of-previous-hand-not-dealt-in"
				}
				c.Violate(sig, fmt.Sprintf("hand %d (dealer %d, bb %d; previous dealer/sb/bb %d/%d/%d): %s at seat %d is seated-in with chips and not waiting for the big blind, but is not dealt in", t.State.GameCount, d, b, tr.d, tr.s, tr.b, id, seat), w())
				return
			}
		case 1:
			if isDealt {
				c.Violate("C05/waiting-newcomer-dealt-in", fmt.Sprintf("hand %d (dealer %d, bb %d; previous dealer/sb/bb %d/%d/%d): newcomer/re-buyer %s at seat %d is still strictly between button and big blind but is dealt in", t.State.GameCount, d, b, tr.d, tr.s, tr.b, id, seat), w())
				return
			}
		case 2:
			c.Feature("not-judged:button-reference-ambiguous")
			if isDealt {
				tr.W[id] = 0
			} else {
				tr.W[id] = 1
			}
		}
		if isDealt {
			tr.misses[id] = 0
			if !first && !tr.prevDealt[id] {
				c.Feature("newcomer-dealt-in")
			}
		} else {
			c.Feature("waiting-newcomer")
			tr.misses[id]++
			if tr.misses[id] > 3 {
				c.Violate("C05/missed-more-than-three-hands", fmt.Sprintf("hand %d: %s (seat %d) has been seated-in with chips for %d consecutive opens without being dealt in", t.State.GameCount, id, seat, tr.misses[id]), w())
				return
			}
		}
	}
	_ = released
	for id := range tr.misses {
		if !live[id] {
			delete(tr.misses, id)
		}
	}
	if waiting > 0 || len(p.Ops) != tr.lastOps {
		c.Nontrivial()
	}
	tr.lastOps = len(p.Ops)
	tr.prevDealt = dealt
	tr.d, tr.s, tr.b = d, t.State.CurrentSBSeat, b
	tr.short, tr.n = short, n
	tr.hands++
	c.Count("opens_checked", 1)
	c.FP(len(dealt), waiting)
}

// c05FirstHandWithLateSitters: two or more players hold seats but only one has sat in when the first hand is due.
// No hand may open with him alone; once the others sit in (while the engine waits to retry) the hand opens with
// everybody who is seated-in with chips.
func c05FirstHandWithLateSitters(c *h.Ctx) {
	r := c.R
	cfg := h.GenTable(r, h.GenOpts{MinSeats: 2, MaxSeats: 6, MinPlayers: 2, DeepOnly: true, Modes: []string{"ct", "cash"}})
	s, err := h.NewSim(h.SimConfig{Setting: cfg.Setting(false), Interval: 0}, r.Int63())
	if err != nil {
		c.Inconclusive(err.Error())
		return
	}
	for _, pl := range cfg.Players {
		if err := s.Reserve(pl.ID, pl.Seat, pl.Chips); err != nil {
			c.Inconclusive("reserve: " + err.Error())
			return
		}
	}
	first := cfg.Players[r.Intn(len(cfg.Players))].ID
	s.Join(first)
	s.TE.StartTableGame()
	w := func() interface{} {
		return map[string]interface{}{"cfg": cfg, "first_to_sit_in": first, "trace": s.TraceTail(40)}
	}
	judge := func(e *h.Ev) bool {
		if e.Kind != h.EvTable || e.T == nil || e.T.State.Status != pt.TableStateStatus_TableGameOpened {
			return false
		}
		dealt := 0
		for _, ps := range e.T.State.PlayerStates {
			if ps.IsParticipated {
				dealt++
				if !ps.IsIn || ps.Bankroll <= 0 {
					c.Violate("C05/dealt-in-without-seat-or-chips", fmt.Sprintf("first hand: %s is dealt in with is_in=%v bankroll=%d", ps.PlayerID, ps.IsIn, ps.Bankroll), w())
					return true
				}
			} else if ps.IsIn && ps.Bankroll > 0 {
				c.Violate("C05/eligible-player-not-dealt-in/first-hand", fmt.Sprintf("first hand: %s is seated-in with chips and not dealt in", ps.PlayerID), w())
				return true
			}
		}
		if dealt < 2 {
			c.Violate("C05/hand-opened-with-fewer-than-two", fmt.Sprintf("the first hand opened with %d dealt-in players (only %s had sat in)", dealt, first), w())
		}
		return true
	}
	e, ok := s.WaitFor(5*time.Second, func(e *h.Ev) bool { return e.Kind == h.EvSetup }, nil)
	if !ok {
		c.Inconclusive("no first set-up")
		return
	}
	s.SignalAll(h.SetupIDs(e.Setup)) // only the seated-in player's signal counts: the gate fires by its 2 s timeout
	opened := false
	s.WaitFor(4*time.Second, func(e *h.Ev) bool {
		if judge(e) {
			opened = true
		}
		return opened || e.Kind == h.EvGateFire
	}, nil)
	if c.Failed() {
		return
	}
	if opened {
		c.Violate("C05/hand-opened-with-fewer-than-two", "a hand opened although only one player had sat in", w())
		return
	}
	time.Sleep(time.Duration(200+r.Intn(1500)) * time.Millisecond)
	for _, pl := range cfg.Players {
		if pl.ID != first {
			s.TE.PlayerJoin(pl.ID)
			time.Sleep(400 * time.Microsecond)
		}
	}
	s.WaitFor(9*time.Second, func(e *h.Ev) bool {
		if judge(e) {
			opened = true
		}
		return opened
	}, nil)
	if c.Failed() {
		return
	}
	if opened {
		c.Feature("first-hand-after-late-sitters")
		c.Nontrivial()
	}
	c.FP("late-sitters", fmt.Sprintf("%+v", cfg), first)
	c.Sample(map[string]interface{}{"kind": "first hand due with one player seated in; the others sit in while the engine waits to retry", "cfg": cfg, "opened": opened})
}

func init() {
	h.Register(&h.Check{
		ID:        "C05",
		Level:     "exploration",
		Technique: "runtime monitoring: eligibility tracker over consecutive opened snapshots of generated tables with arrivals, busts, re-buys and departures",
		Rule: "case = one generated table playing 8..20 hands with arrivals at every offset to the button (before and during hands), rigged busts, re-buys, sit-outs and leaves; at each open: dealt-in subset of seated-in-with-chips, at least two, every seated-in player with chips that is not dealt in must be a newcomer/re-buyer inside the button..BB arc, a newcomer inside the arc (under both button references) must not be dealt in unless fewer than two others could be, players of the previous hand stay in, nobody waits more than three opens; " +
			"non-trivial = the table had an open with a waiting player or the first open after a membership change; distinct = fingerprint of config+ops+per-open (dealt, waiting)",
		Assumptions: []string{
			"'the button' of a new hand is ambiguous across heads-up transitions; a player is judged only where the published dealer seat and the previous small-blind seat give the same answer",
			"add-ons (PlayerRedeemChips) are only given to players who still have chips: the statement names re-buy as the way a busted player becomes eligible again",
		},
		Cases:         func(tier string) int { return map[string]int{"quick": 256, "thorough": 2000}[tier] },
		MinNontrivial: func(tier string) int { return map[string]int{"quick": 100, "thorough": 800}[tier] },
		RequiredFeatures: func(string) []string {
			return []string{"waiting-newcomer", "newcomer-dealt-in", "addon-to-busted-player-between-hands", "seated-in-by-auto-join-timer", "first-hand-after-late-sitters"}
		},
		CaseTimeout: 180e9,
		Run: func(c *h.Ctx) {
			if c.Case%32 == 17 {
				c05FirstHandWithLateSitters(c)
				return
			}
			po := PlayOpts{
				Hands:    8 + c.R.Intn(13),
				Churn:    Churn{BetweenP: 0.6, MidP: 0.2, Rebuy: true, BuyIn: true, Leave: true, AddOn: true, AddOnBusted: true, MidJoin: true, MidLeaveOther: true, MidTopup: false, RandomSeat: true, ResumePaused: true, SitOut: true, SitOutOften: true, Batch: true},
				Gen:      h.GenOpts{MinSeats: 3, ShortStacks: c.R.Intn(2) == 0},
				Policies: []string{"maniac", "callstation", "random"},
				Decks:    []string{"rank", "seeded"},
			}
			if c.Case%5 == 0 {
				po.Gen.Rules = []string{"short_deck"}
			}
			tr := &c05Tracker{d: -1, s: -1, b: -1, misses: map[string]int{}, W: map[string]int{}, stale: map[string]bool{}}
			gc := -1
			lazyDone := false
			mon := &PlayMon{
				AfterOp: func(p *Play, op OpRec) {
					if op.Kind == "addon" && op.Err == "" && op.WasBusted && op.Phase != "mid" {
						tr.W[op.ID] = 3
					}
					// somebody who has left is forgotten at once: if he comes back (same id) he is a newcomer
					if op.Err == "" && (op.Kind == "leave" || op.Kind == "leavemany" || op.Kind == "update") {
						present := map[string]bool{}
						for _, ps := range p.tableNow().State.PlayerStates {
							present[ps.PlayerID] = true
						}
						for id := range tr.W {
							if !present[id] {
								delete(tr.W, id)
								delete(tr.misses, id)
								delete(tr.stale, id)
							}
						}
					}
				},
				OnEvent: func(p *Play, e *h.Ev) {
					if e.Kind == h.EvReserved && e.PS != nil {
						tr.n = p.Cfg.Seats
						tr.short = p.Cfg.Rule == "short_deck"
						tr.seated(e.PS.PlayerID, e.PS.Seat)
					}
					if e.Kind == h.EvTable && e.T != nil && e.T.State.Status == pt.TableStateStatus_TableGameOpened && e.T.State.GameCount != gc && !p.C.Failed() {
						gc = e.T.State.GameCount
						tr.opened(p, e)
					}
				},
				// a mid-hand re-buy of a busted bystander exercises "re-buyer on the same terms as a newcomer"
				BeforeAct: func(p *Play, e *h.Ev, gp int, pid string) bool {
					// one case in thirty-two: a newcomer reserves a seat and never joins; the engine seats him in by
					// itself after 17 s (the hand is held still meanwhile) and from then on he is judged like anybody
					if p.C.Case%32 == 9 && !lazyDone && p.HandNo >= 2 {
						lazyDone = true
						if free := p.SS.FreeSeats(); len(free) > 0 {
							if _, ok := p.LazyBuyIn("mid", free[p.R().Intn(len(free))], p.Cfg.BB*40+40); ok {
								p.C.Feature("seated-in-by-auto-join-timer")
							}
						}
					}
					if p.R().Intn(12) == 0 {
						for _, ps := range e.T.State.PlayerStates {
							if ps.Bankroll == 0 && !ps.IsParticipated {
								p.C.Feature("mid-hand-rebuy-of-busted-bystander")
								p.Rebuy("mid", ps.PlayerID, p.chipsAmount())
								break
							}
						}
					}
					return true
				},
			}
			p := RunPlay(c, po, mon)
			if p == nil {
				return
			}
			c.FP(fmt.Sprintf("%+v", p.Cfg), fmt.Sprintf("%+v", p.Ops))
			if p.Stalled && !c.Failed() {
				c.InconclusiveW(fmt.Sprintf("foreign: hand %d did not settle within the watchdog", p.HandNo), p.witness())
				return
			}
			c.Sample(map[string]interface{}{"cfg": p.Cfg, "hands": len(p.SS.Hands), "ops": trimOps(p.Ops, 12)})
		},
	})
}
