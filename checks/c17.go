package checks

import (
	"bytes"
	"errors"
	"fmt"
	"math/rand"
	"sort"
	"strings"
	"sync"
	"sync/atomic"
	"time"

	pt "github.com/weedbox/pokertable"

	h "verif/harness"
)

// C17 — manager tables are isolated and manager calls equal engine calls.

// api is the common surface of "Manager addressed by table id" and "the table's own engine".
type api interface {
	call(name string, a margs) (string, error)
}

type margs struct {
	id     string
	chips  int64
	seat   int
	ids    []string
	joins  []pt.JoinPlayer
	gc     int
	parts  map[string]int
	level  int
	ante   int64
	dealer int64
	sb, bb int64
	dur    int
}

type viaManager struct {
	m   pt.Manager
	tid string
}
type viaEngine struct{ e pt.TableEngine }

func (v viaManager) call(name string, a margs) (string, error) {
	m, t := v.m, v.tid
	switch name {
	case "ReleaseTable":
		return "", m.ReleaseTable(t)
	case "PauseTable":
		return "", m.PauseTable(t)
	case "CloseTable":
		return "", m.CloseTable(t)
	case "StartTableGame":
		return "", m.StartTableGame(t)
	case "SetUpTableGame":
		return "", m.SetUpTableGame(t, a.gc, a.parts)
	case "UpdateBlind":
		return "", m.UpdateBlind(t, a.level, a.ante, a.dealer, a.sb, a.bb)
	case "UpdateTablePlayers":
		r, err := m.UpdateTablePlayers(t, a.joins, a.ids)
		return fmt.Sprint(len(r)), err
	case "PlayerReserve":
		return "", m.PlayerReserve(t, pt.JoinPlayer{PlayerID: a.id, RedeemChips: a.chips, Seat: a.seat})
	case "PlayerJoin":
		return "", m.PlayerJoin(t, a.id)
	case "PlayerSettlementFinish":
		return "", m.PlayerSettlementFinish(t, a.id)
	case "PlayerRedeemChips":
		return "", m.PlayerRedeemChips(t, pt.JoinPlayer{PlayerID: a.id, RedeemChips: a.chips})
	case "PlayersLeave":
		return "", m.PlayersLeave(t, a.ids)
	case "PlayerExtendActionDeadline":
		v, err := m.PlayerExtendActionDeadline(t, a.id, a.dur)
		return fmt.Sprint(v), err
	case "PlayerReady":
		return "", m.PlayerReady(t, a.id)
	case "PlayerPay":
		return "", m.PlayerPay(t, a.id, a.chips)
	case "PlayerBet":
		return "", m.PlayerBet(t, a.id, a.chips)
	case "PlayerRaise":
		return "", m.PlayerRaise(t, a.id, a.chips)
	case "PlayerCall":
		return "", m.PlayerCall(t, a.id)
	case "PlayerAllin":
		return "", m.PlayerAllin(t, a.id)
	case "PlayerCheck":
		return "", m.PlayerCheck(t, a.id)
	case "PlayerFold":
		return "", m.PlayerFold(t, a.id)
	case "PlayerPass":
		return "", m.PlayerPass(t, a.id)
	}
	return "", fmt.Errorf("unknown method %s", name)
}

func (v viaEngine) call(name string, a margs) (string, error) {
	e := v.e
	switch name {
	case "ReleaseTable":
		return "", e.ReleaseTable()
	case "PauseTable":
		return "", e.PauseTable()
	case "CloseTable":
		return "", e.CloseTable()
	case "StartTableGame":
		return "", e.StartTableGame()
	case "SetUpTableGame":
		e.SetUpTableGame(a.gc, a.parts)
		return "", nil
	case "UpdateBlind":
		e.UpdateBlind(a.level, a.ante, a.dealer, a.sb, a.bb)
		return "", nil
	case "UpdateTablePlayers":
		r, err := e.UpdateTablePlayers(a.joins, a.ids)
		return fmt.Sprint(len(r)), err
	case "PlayerReserve":
		return "", e.PlayerReserve(pt.JoinPlayer{PlayerID: a.id, RedeemChips: a.chips, Seat: a.seat})
	case "PlayerJoin":
		return "", e.PlayerJoin(a.id)
	case "PlayerSettlementFinish":
		return "", e.PlayerSettlementFinish(a.id)
	case "PlayerRedeemChips":
		return "", e.PlayerRedeemChips(pt.JoinPlayer{PlayerID: a.id, RedeemChips: a.chips})
	case "PlayersLeave":
		return "", e.PlayersLeave(a.ids)
	case "PlayerExtendActionDeadline":
		v, err := e.PlayerExtendActionDeadline(a.id, a.dur)
		return fmt.Sprint(v), err
	case "PlayerReady":
		return "", e.PlayerReady(a.id)
	case "PlayerPay":
		return "", e.PlayerPay(a.id, a.chips)
	case "PlayerBet":
		return "", e.PlayerBet(a.id, a.chips)
	case "PlayerRaise":
		return "", e.PlayerRaise(a.id, a.chips)
	case "PlayerCall":
		return "", e.PlayerCall(a.id)
	case "PlayerAllin":
		return "", e.PlayerAllin(a.id)
	case "PlayerCheck":
		return "", e.PlayerCheck(a.id)
	case "PlayerFold":
		return "", e.PlayerFold(a.id)
	case "PlayerPass":
		return "", e.PlayerPass(a.id)
	}
	return "", fmt.Errorf("unknown method %s", name)
}

var c17Methods = []string{"ReleaseTable", "PauseTable", "CloseTable", "StartTableGame", "SetUpTableGame", "UpdateBlind", "UpdateTablePlayers", "PlayerReserve", "PlayerJoin", "PlayerSettlementFinish", "PlayerRedeemChips", "PlayersLeave", "PlayerExtendActionDeadline", "PlayerReady", "PlayerPay", "PlayerBet", "PlayerRaise", "PlayerCall", "PlayerAllin", "PlayerCheck", "PlayerFold", "PlayerPass"}

// projection of a table that does not depend on ids, cards, times or who got the button.
func c17Project(t *pt.Table, prevDeadline int64) string {
	st := t.State
	banks := []int{}
	in, part := 0, 0
	for _, ps := range st.PlayerStates {
		banks = append(banks, int(ps.Bankroll))
		// (only the three players the scenario seats in itself: right after a reservation the engine's auto seat-in
		// group may complete at once and seat the newcomer in, or not - see DESIGN 8.3)
		if ps.IsIn && (ps.PlayerID == "p0" || ps.PlayerID == "p1" || ps.PlayerID == "p2") {
			in++
		}
		if ps.IsParticipated {
			part++
		}
	}
	sort.Ints(banks)
	occ := 0
	for _, v := range st.SeatMap {
		if v >= 0 {
			occ++
		}
	}
	ev, round, pot := "", "", int64(0)
	if st.GameState != nil {
		ev, round = st.GameState.Status.CurrentEvent, st.GameState.Status.Round
		for _, p := range st.GameState.Players {
			pot += p.Pot + p.Wager
		}
	}
	la := "none"
	if st.LastPlayerGameAction != nil {
		la = fmt.Sprintf("%s/%d", st.LastPlayerGameAction.Action, st.LastPlayerGameAction.Chips)
	}
	dl := "0"
	if st.CurrentActionEndAt != 0 {
		dl = "set" // absolute times (and second boundaries crossed between two steps) differ from run to run
	}
	_ = prevDeadline
	return fmt.Sprintf("status=%s gc=%d players=%d in=%d dealt=%d seats=%d banks=%v blind=%+v ev=%s round=%s pot=%d last=%s deadline=%s start=%v", st.Status, st.GameCount, len(st.PlayerStates), in, part, occ, banks, *st.BlindState, ev, round, pot, la, dl, st.StartAt != -1)
}

type c17Runner struct {
	lastActed  int64 // UpdatedAt of the hand state the last accepted game action was applied to
	a          api
	eng        pt.TableEngine
	transcript []string
	prevDL     int64
	fail       string
	probeSeed  int64 // seed of the random-argument block of the scenario (the same for the runs that are compared)
}

func (r *c17Runner) table() *pt.Table { return r.eng.GetTable() }

func (r *c17Runner) waitFor(what string, pred func(t *pt.Table) bool) bool {
	dl := time.Now().Add(6 * time.Second)
	for time.Now().Before(dl) {
		if pred(r.table()) {
			// the engine assigns the hand state first and the action deadline of the new turn afterwards, outside any
			// lock this reader could take: a look in between saw "turn started, no deadline" in one run and the deadline
			// in the other (seed 2 case 461 under load). Give the deadline up to 50 ms to appear.
			for i := 0; i < 200; i++ {
				t := r.table()
				if gs := t.State.GameState; gs == nil || gs.Status.CurrentEvent != "RoundStarted" || t.State.CurrentActionEndAt != 0 {
					break
				}
				time.Sleep(250 * time.Microsecond)
			}
			time.Sleep(300 * time.Microsecond) // let the publishing goroutine finish
			return true
		}
		time.Sleep(100 * time.Microsecond)
	}
	r.fail = "timed out waiting for " + what
	return false
}

func (r *c17Runner) do(name string, a margs, label string) error {
	before := r.table().State.CurrentActionEndAt
	var stateBefore int64
	if gs := r.table().State.GameState; gs != nil {
		stateBefore = gs.UpdatedAt
	}
	res, err := r.a.call(name, a)
	if err == nil && stateBefore != 0 {
		switch name {
		case "PlayerCall", "PlayerRaise", "PlayerAllin", "PlayerFold", "PlayerCheck", "PlayerBet", "PlayerPass":
			r.lastActed = stateBefore
			// the projection is taken once the resulting state has been published
			r.waitFor("the state after "+name, func(t *pt.Table) bool {
				gs := t.State.GameState
				if gs == nil {
					return t.State.Status == pt.TableStateStatus_TableGameStandby || t.State.Status == pt.TableStateStatus_TablePausing
				}
				if gs.UpdatedAt == stateBefore {
					return false
				}
				switch gs.Status.CurrentEvent { // only states in which the hand waits for somebody
				case "ReadyRequested", "AnteRequested", "BlindsRequested":
					return true
				case "RoundStarted":
					cp := gs.Status.CurrentPlayer
					return cp >= 0 && cp < len(gs.Players) && len(gs.Players[cp].AllowedActions) > 0
				}
				return false
			})
		}
	}
	es := "nil"
	if err != nil {
		es = err.Error()
	}
	if name == "PlayerExtendActionDeadline" && err == nil {
		res = fmt.Sprintf("+%d", r.table().State.CurrentActionEndAt-before)
	}
	proj := c17Project(r.table(), before)
	if name == "PlayerReady" || name == "PlayerPay" || name == "PlayerSettlementFinish" {
		// the call that completes a request lets the hand move on asynchronously: only the part of the projection
		// that does not depend on how far it got is compared (the following step waits for the next request)
		if i := strings.Index(proj, " ev="); i > 0 {
			proj = proj[:i]
		}
		if name == "PlayerSettlementFinish" {
			proj = "(the last signal opens the hand asynchronously: only result and error are compared)"
		}
	}
	r.transcript = append(r.transcript, fmt.Sprintf("%s[%s] -> %s err=%s | %s", name, label, res, es, proj))
	return err
}

func evIs(ev, round string) func(t *pt.Table) bool {
	return func(t *pt.Table) bool {
		gs := t.State.GameState
		return gs != nil && t.State.Status == pt.TableStateStatus_TableGamePlaying && gs.Status.CurrentEvent == ev && (round == "" || gs.Status.Round == round)
	}
}

func roster(t *pt.Table) []string {
	var r []string
	for gp := range t.State.GamePlayerIndexes {
		r = append(r, h.PidOf(t, gp))
	}
	return r
}

func withLabel(t *pt.Table, label string) string {
	gs := t.State.GameState
	for gp := range gs.Players {
		if gs.HasPosition(gp, label) {
			return h.PidOf(t, gp)
		}
	}
	return ""
}

func current(t *pt.Table) (string, []string) {
	gs := t.State.GameState
	cp := gs.Status.CurrentPlayer
	return h.PidOf(t, cp), gs.Players[cp].AllowedActions
}

func other(t *pt.Table, not string) string {
	for _, id := range roster(t) {
		if id != not {
			return id
		}
	}
	return ""
}

// c17Scenario runs the scripted scenario through the given surface.
func c17Scenario(r *c17Runner, variant int) {
	do := r.do
	for _, id := range []string{"p0", "p1", "p2", "ghost"} {
		do("PlayerJoin", margs{id: id}, id)
		time.Sleep(400 * time.Microsecond)
	}
	do("PlayerReserve", margs{id: "p3", chips: 300, seat: 5}, "new@5")
	time.Sleep(400 * time.Microsecond)
	do("PlayerReserve", margs{id: "p3", chips: 25, seat: 5}, "re-buy")
	do("PlayerReserve", margs{id: "p9", chips: 25, seat: 1}, "taken-seat")
	for _, id := range []string{"p0", "p1", "p2"} { // everybody, so that stacks stay equal whoever gets the button
		do("PlayerRedeemChips", margs{id: id, chips: 50}, "seated")
	}
	do("PlayerRedeemChips", margs{id: "ghost", chips: 50}, "unknown")
	do("PlayersLeave", margs{ids: []string{"ghost"}}, "unknown")
	do("PlayersLeave", margs{ids: []string{"p3"}}, "p3")
	do("UpdateTablePlayers", margs{joins: []pt.JoinPlayer{{PlayerID: "p4", RedeemChips: 70, Seat: 6}}}, "join p4@6")
	time.Sleep(400 * time.Microsecond)
	do("UpdateTablePlayers", margs{ids: []string{"p4"}}, "leave p4")
	do("UpdateTablePlayers", margs{joins: []pt.JoinPlayer{{PlayerID: "p5", RedeemChips: 70, Seat: 0}}}, "join on taken seat")
	// random-argument block (table not started yet, so every effect is synchronous): all-distinct amounts, empty and
	// nil lists, zero values. A forwarding slip that transposes, drops or short-cuts an argument shows as a different
	// result, projection or notification count.
	if r.probeSeed != 0 {
		pr := rand.New(rand.NewSource(r.probeSeed))
		for i := 0; i < 24; i++ {
			switch pr.Intn(8) {
			case 0, 1:
				v := pr.Perm(40)
				do("UpdateBlind", margs{level: 1 + pr.Intn(6), ante: int64(1 + v[0]), dealer: int64(1 + v[1]), sb: int64(1 + v[2]), bb: int64(1 + v[3])}, "all-distinct amounts")
			case 2:
				do("PlayersLeave", margs{ids: [][]string{nil, {}, {"ghost"}, {"ghost", "p0"}}[pr.Intn(4)]}, "nobody / unknown")
			case 3:
				do("UpdateTablePlayers", margs{joins: [][]pt.JoinPlayer{nil, {}}[pr.Intn(2)], ids: [][]string{nil, {}}[pr.Intn(2)]}, "empty batch")
			case 4:
				chips := int64(1 + pr.Intn(500))
				for _, id := range []string{"p0", "p1", "p2"} {
					do("PlayerRedeemChips", margs{id: id, chips: chips}, "seated")
				}
			case 5:
				seat := 3 + pr.Intn(6)
				do("PlayerReserve", margs{id: "tmp", chips: int64(1 + pr.Intn(900)), seat: seat}, "temporary player")
				time.Sleep(300 * time.Microsecond)
				do("PlayersLeave", margs{ids: []string{"tmp"}}, "temporary player")
			case 6:
				seat := 3 + pr.Intn(6)
				do("UpdateTablePlayers", margs{joins: []pt.JoinPlayer{{PlayerID: "tmp", RedeemChips: int64(1 + pr.Intn(900)), Seat: seat}}}, "temporary player")
				time.Sleep(300 * time.Microsecond)
				do("UpdateTablePlayers", margs{ids: []string{"tmp"}}, "temporary player")
			case 7:
				do("PlayerExtendActionDeadline", margs{id: []string{"p0", "ghost", ""}[pr.Intn(3)], dur: pr.Intn(30)}, "no hand")
			}
		}
	}
	do("UpdateBlind", margs{level: 2, ante: 0, dealer: 0, sb: 10, bb: 20}, "level 2")
	do("PlayerExtendActionDeadline", margs{id: "p0", dur: 3}, "no hand")
	do("PlayerFold", margs{id: "p0"}, "no hand")
	do("StartTableGame", margs{}, "")
	do("StartTableGame", margs{}, "again")
	do("SetUpTableGame", margs{gc: 1, parts: map[string]int{"p0": 0, "p1": 1, "p2": 2}}, "hand 1")
	time.Sleep(300 * time.Microsecond)
	for _, id := range []string{"p0", "p1", "ghost", "p2"} {
		do("PlayerSettlementFinish", margs{id: id}, id)
	}
	if !r.waitFor("ready request", evIs("ReadyRequested", "")) {
		return
	}
	for _, id := range roster(r.table()) {
		do("PlayerReady", margs{id: id}, "participant")
	}
	if !r.waitFor("blinds request", evIs("BlindsRequested", "preflop")) {
		return
	}
	t := r.table()
	do("PlayerPay", margs{id: withLabel(t, "dealer"), chips: 5}, "dealer (owes nothing)")
	do("PlayerPay", margs{id: withLabel(t, "sb"), chips: 10}, "sb")
	do("PlayerPay", margs{id: withLabel(t, "bb"), chips: 20}, "bb")
	if !r.waitFor("round ready request", evIs("ReadyRequested", "preflop")) {
		return
	}
	for _, id := range roster(r.table()) {
		do("PlayerReady", margs{id: id}, "participant")
	}
	if !r.waitFor("first turn", evIs("RoundStarted", "preflop")) {
		return
	}
	turn := func() (string, bool) {
		ok := r.waitFor("a turn", func(t *pt.Table) bool {
			gs := t.State.GameState
			return gs != nil && gs.UpdatedAt != r.lastActed && gs.Status.CurrentEvent == "RoundStarted" && gs.Status.CurrentPlayer >= 0 && len(gs.Players[gs.Status.CurrentPlayer].AllowedActions) > 0
		})
		if !ok {
			return "", false
		}
		id, _ := current(r.table())
		return id, true
	}
	cur, ok := turn()
	if !ok {
		return
	}
	do("PlayerFold", margs{id: other(r.table(), cur)}, "out of turn")
	do("PlayerCheck", margs{id: cur}, "current, facing the blind")
	do("PlayerBet", margs{id: cur, chips: 40}, "current, facing the blind")
	do("PlayerPass", margs{id: cur}, "current, may not pass")
	do("PlayerReady", margs{id: cur}, "current, not asked")
	do("PlayerExtendActionDeadline", margs{id: cur, dur: 7}, "current")
	if variant == 0 {
		// call, raise, all-in, fold, fold: no showdown
		do("PlayerCall", margs{id: cur}, "current")
		if cur, ok = turn(); !ok {
			return
		}
		do("PlayerRaise", margs{id: cur, chips: 60}, "current")
		if cur, ok = turn(); !ok {
			return
		}
		do("PlayerAllin", margs{id: cur}, "current")
		if cur, ok = turn(); !ok {
			return
		}
		do("PlayerFold", margs{id: cur}, "current")
		if cur, ok = turn(); !ok {
			return
		}
		do("PlayerFold", margs{id: cur}, "current")
	} else {
		// everybody calls / checks to the flop; check, bet, fold, fold
		do("PlayerCall", margs{id: cur}, "current")
		if cur, ok = turn(); !ok {
			return
		}
		do("PlayerCall", margs{id: cur}, "current")
		if cur, ok = turn(); !ok {
			return
		}
		do("PlayerCheck", margs{id: cur}, "current (bb option)")
		if !r.waitFor("flop ready request", evIs("ReadyRequested", "flop")) {
			return
		}
		for _, id := range roster(r.table()) {
			do("PlayerReady", margs{id: id}, "participant")
		}
		if !r.waitFor("flop turn", evIs("RoundStarted", "flop")) {
			return
		}
		if cur, ok = turn(); !ok {
			return
		}
		do("PlayerCall", margs{id: cur}, "current, nothing to call")
		do("PlayerCheck", margs{id: cur}, "current")
		if cur, ok = turn(); !ok {
			return
		}
		do("PlayerBet", margs{id: cur, chips: 40}, "current")
		if cur, ok = turn(); !ok {
			return
		}
		do("PlayerFold", margs{id: cur}, "current")
		if cur, ok = turn(); !ok {
			return
		}
		do("PlayerFold", margs{id: cur}, "current")
	}
	if !r.waitFor("standby after the hand", func(t *pt.Table) bool {
		return t.State.Status == pt.TableStateStatus_TableGameStandby && t.State.GameCount == 1
	}) {
		return
	}
	time.Sleep(time.Millisecond)
	do("PlayerCall", margs{id: "p0"}, "between hands")
	// the table was created with continue interval 0: the next hand is set up at once, and opens as soon as everybody
	// has signalled (signals are repeated until they have been taken: the set-up may be a moment behind the status)
	opened2 := false
	for dl := time.Now().Add(6 * time.Second); time.Now().Before(dl) && !opened2; time.Sleep(2 * time.Millisecond) {
		for _, id := range []string{"p0", "p1", "p2"} {
			r.a.call("PlayerSettlementFinish", margs{id: id})
		}
		opened2 = r.table().State.GameCount == 2
	}
	if !opened2 {
		r.fail = "hand 2 did not open within 6 s of hand 1 although the continue interval is 0 and everybody signalled"
		return
	}
	if !r.waitFor("hand 2 waiting for readiness", evIs("ReadyRequested", "")) {
		return
	}
	do("PlayerExtendActionDeadline", margs{id: "ghost", dur: 1}, "hand 2 open")
	do("PauseTable", margs{}, "")
	if variant == 0 {
		do("CloseTable", margs{}, "")
	} else {
		do("ReleaseTable", margs{}, "")
	}
}

func c17Setting(id string) pt.TableSetting {
	return pt.TableSetting{
		TableID: id,
		Meta:    pt.TableMeta{CompetitionID: "C", Rule: "default", Mode: "ct", MaxDuration: 1 << 30, TableMaxSeatCount: 9, TableMinPlayerCount: 2, ActionTime: 12},
		Blind:   pt.TableBlindState{Level: 1, SB: 5, BB: 10},
		JoinPlayers: []pt.JoinPlayer{
			{PlayerID: "p0", RedeemChips: 1000, Seat: 0}, {PlayerID: "p1", RedeemChips: 1000, Seat: 1}, {PlayerID: "p2", RedeemChips: 1000, Seat: 2},
		},
	}
}

type c17Counts struct {
	reserved, playerState, firstOpen, autoEnd, errors, wagerActions int64
}

func (k *c17Counts) callbacks() *pt.TableEngineCallbacks {
	cb := pt.NewTableEngineCallbacks()
	cb.OnTablePlayerReserved = func(string, string, *pt.TablePlayerState) { atomic.AddInt64(&k.reserved, 1) }
	cb.OnTablePlayerStateUpdated = func(string, string, *pt.TablePlayerState) { atomic.AddInt64(&k.playerState, 1) }
	cb.OnReadyOpenFirstTableGame = func(string, string, int, []*pt.TablePlayerState) { atomic.AddInt64(&k.firstOpen, 1) }
	cb.OnAutoGameOpenEnd = func(string, string) { atomic.AddInt64(&k.autoEnd, 1) }
	cb.OnTableErrorUpdated = func(*pt.Table, error) { atomic.AddInt64(&k.errors, 1) }
	cb.OnGamePlayerActionUpdated = func(a pt.TablePlayerGameAction) {
		if wagerActs[a.Action] {
			atomic.AddInt64(&k.wagerActions, 1)
		}
	}
	return cb
}

func (k *c17Counts) String() string {
	return fmt.Sprintf("reserved=%d player-state=%d first-open=%d auto-end=%d errors=%d wager-actions=%d", atomic.LoadInt64(&k.reserved), atomic.LoadInt64(&k.playerState), atomic.LoadInt64(&k.firstOpen), atomic.LoadInt64(&k.autoEnd), atomic.LoadInt64(&k.errors), atomic.LoadInt64(&k.wagerActions))
}

func c17Forwarding(c *h.Ctx) {
	variant := c.Case % 2
	opts := pt.NewTableEngineOptions()
	opts.GameContinueInterval = 0
	var mgrCounts, bareCounts c17Counts
	probeSeed := 1 + c.R.Int63n(1<<40)
	run := func(throughManager bool) (*c17Runner, error) {
		m := pt.NewManager()
		var cb *pt.TableEngineCallbacks
		if throughManager {
			cb = mgrCounts.callbacks()
		}
		if throughManager {
			// neighbours in the same manager, created before and after T with other options (and with none): what they
			// were given must not reach T
			before := pt.NewTableEngineOptions()
			before.GameContinueInterval = 50
			m.CreateTable(before, nil, c17Setting("neighbour-before"))
		}
		if _, err := m.CreateTable(opts, cb, c17Setting("T")); err != nil {
			return nil, err
		}
		if throughManager {
			after := &pt.TableEngineOptions{GameContinueInterval: 45, OpenGameTimeout: 30}
			m.CreateTable(after, nil, c17Setting("neighbour-after"))
			m.CreateTable(nil, nil, c17Setting("neighbour-default"))
		}
		eng, err := m.GetTableEngine("T")
		if err != nil {
			return nil, err
		}
		r := &c17Runner{eng: eng, probeSeed: probeSeed}
		if throughManager {
			r.a = viaManager{m, "T"}
		} else {
			r.a = viaEngine{eng}
		}
		c17Scenario(r, variant)
		return r, nil
	}
	a, err := run(true)
	if err != nil {
		c.Inconclusive(err.Error())
		return
	}
	b, err := run(false)
	if err != nil {
		c.Inconclusive(err.Error())
		return
	}
	if a.fail != "" || b.fail != "" {
		if a.fail != b.fail {
			c.Violate("C17/manager-and-engine-runs-diverge", fmt.Sprintf("through the manager: %q; through the engine: %q (steps done %d vs %d)", a.fail, b.fail, len(a.transcript), len(b.transcript)), map[string]interface{}{"manager": a.transcript, "engine": b.transcript})
			return
		}
		c.InconclusiveW("scenario stalled the same way in both runs: "+a.fail, map[string]interface{}{"manager": a.transcript})
		return
	}
	n := len(a.transcript)
	if len(b.transcript) < n {
		n = len(b.transcript)
	}
	for i := 0; i < n; i++ {
		if a.transcript[i] != b.transcript[i] {
			c.Violate("C17/manager-call-differs-from-engine-call", fmt.Sprintf("step %d:\n  via manager: %s\n  via engine : %s", i, a.transcript[i], b.transcript[i]), map[string]interface{}{"manager": a.transcript, "engine": b.transcript})
			return
		}
	}
	if ra, rb := pt.VerifIsReleased(a.eng), pt.VerifIsReleased(b.eng); ra != rb {
		c.Violate("C17/manager-call-differs-from-engine-call", fmt.Sprintf("at the end of the scenario (last call: %s) the engine driven through the manager has released=%v, the one driven directly released=%v", map[int]string{0: "CloseTable", 1: "ReleaseTable"}[variant], ra, rb), map[string]interface{}{"manager": a.transcript})
		return
	}
	if len(a.transcript) != len(b.transcript) {
		c.Violate("C17/manager-and-engine-runs-diverge", fmt.Sprintf("%d steps via the manager, %d via the engine", len(a.transcript), len(b.transcript)), map[string]interface{}{"manager": a.transcript, "engine": b.transcript})
		return
	}
	// third run: a bare engine wired by hand with the same callbacks; a table created through the manager must
	// produce the same notifications for the same calls
	{
		cb := bareCounts.callbacks()
		eng := pt.NewTableEngine(opts, pt.WithGameBackend(pt.NewNativeGameBackend()))
		eng.OnTableUpdated(cb.OnTableUpdated)
		eng.OnTableErrorUpdated(cb.OnTableErrorUpdated)
		eng.OnTableStateUpdated(cb.OnTableStateUpdated)
		eng.OnTablePlayerStateUpdated(cb.OnTablePlayerStateUpdated)
		eng.OnTablePlayerReserved(cb.OnTablePlayerReserved)
		eng.OnGamePlayerActionUpdated(cb.OnGamePlayerActionUpdated)
		eng.OnAutoGameOpenEnd(cb.OnAutoGameOpenEnd)
		eng.OnReadyOpenFirstTableGame(cb.OnReadyOpenFirstTableGame)
		if _, err := eng.CreateTable(c17Setting("T")); err != nil {
			c.Inconclusive(err.Error())
			return
		}
		r3 := &c17Runner{eng: eng, a: viaEngine{eng}, probeSeed: probeSeed}
		c17Scenario(r3, variant)
		time.Sleep(2 * time.Millisecond)
		if r3.fail == "" && mgrCounts.String() != bareCounts.String() {
			c.Violate("C17/manager-created-table-notifies-differently", fmt.Sprintf("same scenario, same callbacks: table created through the manager -> %s; engine wired by hand -> %s", mgrCounts.String(), bareCounts.String()), map[string]interface{}{"manager": a.transcript})
			return
		}
		c.Feature("callback-streams-compared")
	}
	used := map[string]bool{}
	for _, l := range a.transcript {
		for _, mname := range c17Methods {
			if len(l) > len(mname) && l[:len(mname)+1] == mname+"[" {
				used[mname] = true
			}
		}
	}
	c.Count("steps_compared", int64(len(a.transcript)))
	c.Count("methods_compared", int64(len(used)))
	for mname := range used {
		c.Feature("method:" + mname)
	}
	c.Feature(fmt.Sprintf("forwarding-variant-%d", variant))
	c.Nontrivial()
	c.FP("forwarding", variant, c.Seed)
	c.Sample(map[string]interface{}{"kind": "same scenario through Manager and through the engine", "variant": variant, "steps": len(a.transcript), "first_steps": a.transcript[:6]})
}

// c17Isolation: operations on one table leave the others untouched.
func c17Isolation(c *h.Ctx) {
	r := c.R
	m := pt.NewManager()
	opts := pt.NewTableEngineOptions()
	opts.GameContinueInterval = 0
	k := 2 + r.Intn(5)
	ids := []string{}
	for i := 0; i < k; i++ {
		id := fmt.Sprintf("T%d", i)
		st := c17Setting(id)
		if i%3 == 2 {
			st.Blind.Level = -1 // paused from the start
		}
		if _, err := m.CreateTable(opts, nil, st); err != nil {
			c.Inconclusive(err.Error())
			return
		}
		ids = append(ids, id)
	}
	// bring some tables into a running hand (parked at the first request)
	for i, id := range ids {
		if i%3 == 1 {
			for _, p := range []string{"p0", "p1", "p2"} {
				m.PlayerJoin(id, p)
				time.Sleep(400 * time.Microsecond)
			}
			m.StartTableGame(id)
			m.SetUpTableGame(id, 1, map[string]int{"p0": 0, "p1": 1, "p2": 2})
			for _, p := range []string{"p0", "p1", "p2"} {
				m.PlayerSettlementFinish(id, p)
			}
			e, _ := m.GetTableEngine(id)
			rr := &c17Runner{eng: e}
			if !rr.waitFor("ready request", evIs("ReadyRequested", "")) {
				c.Inconclusive("table did not reach the first request")
				return
			}
		}
	}
	// the tables are quiet when no update serial has moved for 5 ms: a parked table may still be publishing the tail
	// of its open, and a call on one table (the last ready signal, say) lets that table's hand move on by itself a
	// moment after the call has returned - neither may fall into the window in which another table's call is judged
	quiet := func() {
		for stable, last, tries := 0, int64(-1), 0; stable < 10 && tries < 4000; tries++ {
			var sum int64
			for _, id := range ids {
				if e, err := m.GetTableEngine(id); err == nil {
					sum += e.GetTable().UpdateSerial
					if gs := e.GetTable().State.GameState; gs != nil {
						sum += gs.UpdatedAt % 1000003
					}
				}
			}
			if sum == last {
				stable++
			} else {
				stable, last = 0, sum
			}
			time.Sleep(500 * time.Microsecond)
		}
	}
	quiet()
	snap := func() map[string][]byte {
		out := map[string][]byte{}
		for _, id := range ids {
			if e, err := m.GetTableEngine(id); err == nil {
				j, _ := e.GetTable().GetJSON()
				out[id] = []byte(j)
			}
		}
		return out
	}
	ops := 0
	log := []string{}
	for step := 0; step < 60 && !c.Failed(); step++ {
		x := ids[r.Intn(len(ids))]
		name := c17Methods[r.Intn(len(c17Methods))]
		if name == "CloseTable" || name == "ReleaseTable" {
			if r.Intn(4) != 0 {
				continue
			}
		}
		a := margs{id: []string{"p0", "p1", "p2", "p7", "ghost"}[r.Intn(5)], chips: int64(10 + r.Intn(50)), seat: 3 + r.Intn(6), ids: []string{[]string{"p0", "p7", "ghost"}[r.Intn(3)]}, gc: 1, parts: map[string]int{"p0": 0, "p1": 1}, level: 3, sb: 15, bb: 30, dur: 5}
		if name == "UpdateTablePlayers" {
			a.joins = []pt.JoinPlayer{{PlayerID: fmt.Sprintf("n%d", step), RedeemChips: 40, Seat: -1}}
			a.ids = nil
		}
		if _, err := m.GetTableEngine(x); err != nil {
			continue
		}
		quiet()
		before := snap()
		_, err := viaManager{m, x}.call(name, a)
		time.Sleep(300 * time.Microsecond)
		after := snap()
		ops++
		log = append(log, fmt.Sprintf("%s(%s,%s) err=%v", name, x, a.id, err))
		for _, id := range ids {
			if id == x {
				continue
			}
			bb, okb := before[id]
			ab, oka := after[id]
			if okb != oka {
				c.Violate("C17/operation-on-one-table-removed-another", fmt.Sprintf("%s on %s: table %s registered before=%v after=%v", name, x, id, okb, oka), log)
				return
			}
			if okb && !bytes.Equal(bb, ab) {
				c.Violate("C17/operation-on-one-table-changed-another/"+name, fmt.Sprintf("%s on table %s changed table %s", name, x, id), map[string]interface{}{"log": log, "before": string(bb), "after": string(ab)})
				return
			}
		}
		c.Feature("isolation:" + name)
	}
	c.Count("isolation_ops", int64(ops))
	c.Nontrivial()
	c.FP("isolation", c.Seed)
	c.Sample(map[string]interface{}{"kind": "isolation", "tables": k, "ops": ops, "log_head": log[:minInt(8, len(log))]})
}

// c17Concurrent: several tables of one manager are driven at the same time, each from its own goroutine; every
// call must land on the table it was addressed to.
func c17Concurrent(c *h.Ctx) {
	m := pt.NewManager()
	opts := pt.NewTableEngineOptions()
	opts.GameContinueInterval = 0
	k := 2 + c.R.Intn(5)
	engs := make([]pt.TableEngine, k)
	for i := 0; i < k; i++ {
		id := fmt.Sprintf("T%d", i)
		if _, err := m.CreateTable(opts, nil, c17Setting(id)); err != nil {
			c.Inconclusive(err.Error())
			return
		}
		engs[i], _ = m.GetTableEngine(id)
	}
	const rounds = 3000
	var wg sync.WaitGroup
	var bad atomic.Value
	for i := 0; i < k; i++ {
		wg.Add(1)
		go func(i int) {
			defer wg.Done()
			id := fmt.Sprintf("T%d", i)
			var sum int64
			for n := 1; n <= rounds && bad.Load() == nil; n++ {
				lvl := (i+1)*100000 + n
				if err := m.UpdateBlind(id, lvl, 0, 0, int64(i+1), int64(2*(i+1))); err != nil {
					bad.Store(fmt.Sprintf("UpdateBlind(%s) -> %v", id, err))
					return
				}
				if got := engs[i].GetTable().State.BlindState.Level; got != lvl {
					bad.Store(fmt.Sprintf("UpdateBlind(%s, level %d) did not reach table %s: its level is %d", id, lvl, id, got))
					return
				}
				amt := int64(i + 1)
				if err := m.PlayerRedeemChips(id, pt.JoinPlayer{PlayerID: "p0", RedeemChips: amt}); err != nil {
					bad.Store(fmt.Sprintf("PlayerRedeemChips(%s) -> %v", id, err))
					return
				}
				sum += amt
				if n%64 == 0 {
					if e, err := m.GetTableEngine(id); err != nil || e != engs[i] {
						bad.Store(fmt.Sprintf("GetTableEngine(%s) returned another table's engine (err %v)", id, err))
						return
					}
				}
			}
			if got := engs[i].GetTable().State.PlayerStates[0].Bankroll; got != 1000+sum && bad.Load() == nil {
				bad.Store(fmt.Sprintf("table %s: p0 was topped up %d times by %d through the manager (own goroutine only) and holds %d instead of %d", id, rounds, i+1, got, 1000+sum))
			}
		}(i)
	}
	wg.Wait()
	if v := bad.Load(); v != nil {
		c.Violate("C17/call-reached-another-table", fmt.Sprintf("%d tables driven concurrently through one manager: %s", k, v.(string)), nil)
		return
	}
	c.Count("concurrent_manager_calls", int64(2*rounds*k))
	c.Feature("concurrent-tables")
	c.Nontrivial()
	c.FP("concurrent", c.Seed)
	c.Sample(map[string]interface{}{"kind": "tables of one manager driven concurrently, one goroutine per table", "tables": k, "calls_per_table": 2 * rounds})
}

// c17NotFound: ids that were never created, whose creation failed, or whose table was closed / released.
func c17NotFound(c *h.Ctx) {
	m := pt.NewManager()
	opts := pt.NewTableEngineOptions()
	opts.GameContinueInterval = 0
	if _, err := m.CreateTable(opts, nil, c17Setting("live")); err != nil {
		c.Inconclusive(err.Error())
		return
	}
	m.CreateTable(opts, nil, c17Setting("closed"))
	m.CreateTable(opts, nil, c17Setting("released"))
	liveEng, _ := m.GetTableEngine("live")
	liveBefore, _ := liveEng.GetTable().GetJSON()
	if err := m.CloseTable("closed"); err != nil {
		c.Violate("C17/close-failed", err.Error(), nil)
		return
	}
	if err := m.ReleaseTable("released"); err != nil {
		c.Violate("C17/release-failed", err.Error(), nil)
		return
	}
	// closed through its own engine first, then through the manager: the manager call still has the engine's effect
	// (a second close publishes again) and the id is gone afterwards
	m.CreateTable(opts, nil, c17Setting("closed-twice"))
	if e2, err := m.GetTableEngine("closed-twice"); err == nil {
		e2.CloseTable()
		serial := e2.GetTable().UpdateSerial
		if err := m.CloseTable("closed-twice"); err != nil {
			c.Violate("C17/close-failed", "closing through the manager a table already closed through its engine: "+err.Error(), nil)
			return
		}
		twin := pt.NewTableEngine(opts, pt.WithGameBackend(pt.NewNativeGameBackend()))
		twin.CreateTable(c17Setting("closed-twice"))
		twin.CloseTable()
		s1 := twin.GetTable().UpdateSerial
		twin.CloseTable()
		if got, want := e2.GetTable().UpdateSerial-serial, twin.GetTable().UpdateSerial-s1; got != want {
			c.Violate("C17/manager-call-differs-from-engine-call", fmt.Sprintf("CloseTable on an already closed table: through the manager the update serial moved by %d, on the engine itself by %d", got, want), nil)
			return
		}
	}
	// failed creations: too many players; and one that re-uses the id of the live table
	bad := c17Setting("failed")
	bad.Meta.TableMaxSeatCount = 2
	if _, err := m.CreateTable(opts, nil, bad); err == nil {
		c.Violate("C17/invalid-create-accepted", "CreateTable with more players than seats returned nil", nil)
		return
	}
	bad2 := c17Setting("live")
	bad2.Meta.TableMaxSeatCount = 2
	m.CreateTable(opts, nil, bad2)
	if e2, err := m.GetTableEngine("live"); err != nil || e2 != liveEng {
		c.Violate("C17/failed-create-replaced-live-table", fmt.Sprintf("after a failed CreateTable re-using the id of a live table the manager returns another engine (err %v)", err), nil)
		return
	}
	a := margs{id: "p0", chips: 10, seat: 4, ids: []string{"p0"}, gc: 1, parts: map[string]int{"p0": 0}, level: 2, sb: 1, bb: 2, dur: 1}
	// (round 7: ids that merely look like the live table's id - letter case, blanks, prefix, extension - are unknown)
	for _, id := range []string{"never", "closed", "released", "failed", "closed-twice", "", "LIVE", "Live", "live ", " live", "liv", "live0"} {
		if _, err := m.GetTableEngine(id); !errors.Is(err, pt.ErrManagerTableNotFound) {
			c.Violate("C17/table-not-found-expected/GetTableEngine", fmt.Sprintf("GetTableEngine(%q) returned %v", id, err), nil)
			return
		}
		for _, name := range c17Methods {
			_, err := viaManager{m, id}.call(name, a)
			if err0 := func() error { _, e := viaManager{m, id}.call(name, margs{}); return e }(); errors.Is(err, pt.ErrManagerTableNotFound) && !errors.Is(err0, pt.ErrManagerTableNotFound) {
				err = err0 // zero-value arguments (empty id, nil lists, nil map): the lookup must still come first
			}
			if !errors.Is(err, pt.ErrManagerTableNotFound) {
				c.Violate("C17/table-not-found-expected/"+name, fmt.Sprintf("%s on table id %q (%s) returned %v instead of the table-not-found error", name, id, map[string]string{"never": "never created", "closed": "closed", "released": "released", "failed": "creation failed", "closed-twice": "closed through its engine, then through the manager", "": "empty id", "LIVE": "look-alike of a live id", "Live": "look-alike of a live id", "live ": "look-alike of a live id", " live": "look-alike of a live id", "liv": "look-alike of a live id", "live0": "look-alike of a live id"}[id], err), nil)
				return
			}
			c.Count("not_found_probes", 1)
		}
	}
	liveAfter, _ := liveEng.GetTable().GetJSON()
	if liveBefore != liveAfter {
		c.Violate("C17/operation-on-one-table-changed-another/not-found-probes", "calls addressed to unknown ids changed a live table", nil)
		return
	}
	m.Reset()
	if _, err := m.GetTableEngine("live"); !errors.Is(err, pt.ErrManagerTableNotFound) {
		c.Violate("C17/reset-keeps-tables", "after Reset the live table is still registered", nil)
		return
	}
	c.Feature("not-found")
	c.Nontrivial()
	c.FP("notfound", c.Seed)
	c.Sample(map[string]interface{}{"kind": "never-created / failed / closed / released ids through all 22 forwarding methods + GetTableEngine"})
}

func init() {
	h.Register(&h.Check{
		ID:        "C17",
		Level:     "exploration",
		Technique: "runtime differential monitoring: one scripted scenario covering all 22 forwarding methods is executed once through Manager and once through the table's own engine and the transcripts (result, error, id-free projection of the table after every step) are compared; random operations on one of several tables with byte comparison of the others; not-found probes through every method",
		Rule: "case i mod 8: 0,1,4,5 -> forwarding scenario (also run on a hand-wired engine with the same callbacks: notification counts must match), 6 -> 2..6 tables driven concurrently through the manager (one goroutine per table, 6000 calls each, every call must reach its own table); the others: forwarding scenario (variant 0: call/raise/all-in/fold line, close at the end; variant 1: limp to the flop, check/bet/fold, release at the end; valid and invalid calls of every method, role-based addressing), 2 -> isolation (2..6 tables created / paused / parked in a running hand, 60 random manager calls), 3 -> ids never created, creation failed, closed, released: every method must return the table-not-found error; " +
			"every case is non-trivial; distinct = kind + variant + seed",
		Assumptions: []string{"transcripts compare id-free projections (status, counts, sorted bankrolls, blind level, hand phase, pot, last action kind/amount, deadline delta) because the first button and the deck are random", "lines avoid showdowns so that chip movements do not depend on the deck"},
		Cases:       func(tier string) int { return map[string]int{"quick": 800, "thorough": 8000}[tier] },
		MinNontrivial: func(tier string) int {
			return map[string]int{"quick": 700, "thorough": 7000}[tier]
		},
		RequiredFeatures: func(string) []string {
			f := []string{}
			for _, mname := range c17Methods {
				f = append(f, "method:"+mname)
			}
			return append(f, "forwarding-variant-0", "forwarding-variant-1", "not-found", "concurrent-tables", "callback-streams-compared", "isolation:PlayerReserve", "isolation:PlayersLeave", "isolation:UpdateBlind", "isolation:PauseTable")
		},
		CaseTimeout: 120e9,
		Run: func(c *h.Ctx) {
			switch c.Case % 8 {
			case 0, 1, 4, 5:
				c17Forwarding(c)
			case 2:
				c17Isolation(c)
			case 6:
				c17Concurrent(c)
			default:
				c17NotFound(c)
			}
		},
	})
}
