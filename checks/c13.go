package checks

import (
	"bytes"
	"encoding/json"
	"errors"
	"fmt"
	"math/rand"
	"strings"
	"time"

	"github.com/weedbox/pokerface"
	pt "github.com/weedbox/pokertable"

	h "verif/harness"
)

// C13 — a failing game backend never corrupts a hand. Level: fault enumeration over the ordinals of the
// backend calls of generated hands (fail once / three times in a row), plus all calls of one kind, plus random
// multi-fault sequences.

var playerKinds = map[string]bool{"Fold": true, "Check": true, "Call": true, "Allin": true, "Bet": true, "Raise": true, "Pass": true, "Pay": true}

func normState(gs *pokerface.GameState) []byte {
	if gs == nil {
		return nil
	}
	b, _ := json.Marshal(gs)
	var c pokerface.GameState
	json.Unmarshal(b, &c)
	c.CreatedAt, c.UpdatedAt = 0, 0
	out, _ := json.Marshal(&c)
	return out
}

func applyCall(nb pt.GameBackend, cur *pokerface.GameState, bc *h.BCall) (*pokerface.GameState, error) {
	switch bc.Kind {
	case "ReadyForAll":
		return nb.ReadyForAll(cur)
	case "PayAnte":
		return nb.PayAnte(cur)
	case "PayBlinds":
		return nb.PayBlinds(cur)
	case "Next":
		return nb.Next(cur)
	case "Pay":
		return nb.Pay(cur, bc.Arg)
	case "Fold":
		return nb.Fold(cur)
	case "Check":
		return nb.Check(cur)
	case "Call":
		return nb.Call(cur)
	case "Allin":
		return nb.Allin(cur)
	case "Bet":
		return nb.Bet(cur, bc.Arg)
	case "Raise":
		return nb.Raise(cur, bc.Arg)
	case "Pass":
		return nb.Pass(cur)
	}
	return nil, fmt.Errorf("unknown kind %s", bc.Kind)
}

type c13Plan struct {
	Mode    string `json:"mode"` // ordinal | kind | random
	Ordinal int    `json:"ordinal,omitempty"`
	Repeat  int    `json:"repeat,omitempty"`
	Kind    string `json:"kind,omitempty"`
	Prob    int    `json:"prob_percent,omitempty"`
}

func c13PlanFor(c *h.Ctx) (c13Plan, int) {
	// scenarios 0..S-1 (table configs/lines derived from the scenario number); for each: ordinals 0..39 x {1,3}, 12 kinds, random
	const perScenario = 28*2 + 36 + 8
	sc := c.Case / perScenario
	k := c.Case % perScenario
	switch {
	case k < 56:
		return c13Plan{Mode: "ordinal", Ordinal: k / 2, Repeat: []int{1, 3}[k%2]}, sc
	case k < 92:
		kinds := []string{"CreateGame", "ReadyForAll", "PayAnte", "PayBlinds", "Next", "Fold", "Check", "Call", "Allin", "Bet", "Raise", "Pass"}
		return c13Plan{Mode: "kind", Kind: kinds[(k-56)%12]}, sc
	}
	return c13Plan{Mode: "random", Prob: 10 + 10*(k-92)}, sc
}

func c13Run(c *h.Ctx) {
	plan, scenario := c13PlanFor(c)
	// the scenario fixes table config, deck and betting policy seed; engine-internal randomness (first button) still varies
	sr := rand.New(rand.NewSource(int64(scenario)*7919 + 17))
	if plan.Mode != "ordinal" {
		sr = rand.New(rand.NewSource(int64(c.Seed))) // kind / random plans: a different hand every case
	}
	cfg := h.GenTable(sr, h.GenOpts{MinSeats: 2, MaxSeats: 6, MinPlayers: 2, Modes: []string{"ct", "cash"}, Rules: []string{"default", "default", "short_deck"}})
	pol := []h.Policy{h.RandomPolicy, h.CallStation, h.Maniac, h.Nit, h.Aggro}[scenario%5]
	if plan.Mode != "ordinal" {
		pol = []h.Policy{h.RandomPolicy, h.Aggro, h.RandomPolicy, h.Maniac}[sr.Intn(4)]
	}
	c.FP(scenario, fmt.Sprintf("%+v", plan))
	rig := h.NewRigBackend()
	deckSeed := sr.Int63()
	rig.DeckFn = h.SeededDeck(rand.New(rand.NewSource(deckSeed)))
	injected := []*h.BCall{}
	failLeft := 0
	seenKind := map[string]bool{}
	fr := rand.New(rand.NewSource(int64(c.Seed)))
	rig.Fault = func(n int, kind string) bool {
		switch plan.Mode {
		case "ordinal":
			if n == plan.Ordinal {
				failLeft = plan.Repeat
			}
			if failLeft > 0 {
				failLeft--
				return true
			}
		case "kind":
			if kind == plan.Kind {
				// every call of the kind fails once (the retry of a player action is the next call of that kind)
				seenKind["failed-last"] = !seenKind["failed-last"]
				return seenKind["failed-last"]
			}
		case "random":
			return fr.Intn(100) < plan.Prob && playerKinds[kind] && failLeft == 0
		}
		return false
	}
	// half of the injected faults are "reply lost": the backend computed the step, the caller only sees the error
	rig.ReplyLost = func(n int, kind string) bool { return (n+int(c.Seed%7)+c.Case)%3 == 0 }
	// a third of them come with the computed state next to the error: the error decides
	rig.StateWithError = func(n int, kind string) bool { return (n+int(c.Seed%7)+c.Case)%3 == 1 }
	s, err := h.NewSim(h.SimConfig{Setting: cfg.Setting(false), Interval: 0, Backend: rig}, sr.Int63())
	if err != nil {
		c.Inconclusive(err.Error())
		return
	}
	for _, pl := range cfg.Players {
		if err := s.Seat(pl.ID, pl.Seat, pl.Chips); err != nil {
			c.Inconclusive("seat: " + err.Error())
			return
		}
	}
	s.TE.StartTableGame()
	e, ok := s.WaitFor(5*time.Second, func(e *h.Ev) bool { return e.Kind == h.EvSetup }, nil)
	if !ok {
		c.Inconclusive("no set-up")
		return
	}
	w := func() interface{} {
		return map[string]interface{}{"cfg": cfg, "plan": plan, "backend_calls": briefCalls(rig.Snapshot()), "trace": s.TraceTail(40)}
	}
	var errEvents []string
	retries := 0
	var script *h.Script
	script = &h.Script{Policy: pol, MaxWait: 4 * time.Second}
	script.OnEvent = func(e *h.Ev) {
		if e.Kind == h.EvError {
			errEvents = append(errEvents, e.Err)
		}
	}
	released := false
	script.BeforeAct = func(e *h.Ev, gp int, pid string) bool {
		if c.Failed() {
			return false
		}
		if c.Case%6 == 5 && !released {
			// the table is released while the hand runs: no further hand will open, this one is played out and its
			// failures are reported like any other
			released = true
			s.TE.ReleaseTable()
			c.Feature("released-while-the-hand-runs")
		}
		gs := e.T.State.GameState
		act, chips := pol(s, e.T, gp, pid, gs.Players[gp])
		for attempt := 0; attempt < 200; attempt++ {
			s.Drain(script.OnEvent)
			before := s.TableJSON()
			lastLA := s.TE.GetTable().State.LastPlayerGameAction
			err, returned := s.DoBounded(pid, act, chips, 20*time.Second)
			if !returned {
				// nothing in a running hand holds the engine lock for long: a call that cannot get in for 20 s while the
				// lock is found held at every probe of a further 2 s means a failed step left it locked
				if attempt > 0 && s.LockHeldFor(20, 100*time.Millisecond) {
					c.Violate("C13/engine-lock-left-held-after-backend-failure/"+act, fmt.Sprintf("the backend failed while applying %s by %s (the caller got the error); the same action submitted again has not returned for 20 s and the engine lock is held although no call is in progress", act, pid), w())
				} else {
					c.InconclusiveW(fmt.Sprintf("%s %s (attempt %d) did not return within 20 s", pid, act, attempt+1), w())
				}
				script.Stop = func() bool { return true }
				return false
			}
			if err == nil {
				return false
			}
			if !errors.Is(err, h.ErrInjected) && !strings.Contains(err.Error(), h.ErrInjected.Error()) {
				c.Violate("C13/legal-action-refused-after-backend-failure", fmt.Sprintf("%s %s (attempt %d) was refused with %v", pid, act, attempt+1, err), w())
				return false
			}
			retries++
			c.Count("failed_player_actions", 1)
			c.Feature("fault:player-action:" + act)
			after := s.TableJSON()
			if !bytes.Equal(before, after) {
				c.Violate("C13/failed-action-changed-table/"+act, fmt.Sprintf("backend failed while applying %s by %s: the caller got the error but the table changed", act, pid), map[string]interface{}{"w": w(), "before": string(before), "after": string(after)})
				return false
			}
			if s.TE.GetTable().State.LastPlayerGameAction != lastLA {
				c.Violate("C13/failed-action-published", fmt.Sprintf("failed %s by %s replaced the last player action", act, pid), w())
				return false
			}
			evBad := ""
			time.Sleep(100 * time.Microsecond)
			s.Drain(func(ev *h.Ev) {
				script.OnEvent(ev)
				if ev.Kind == h.EvAction && ev.Act.Action != "pay" || ev.Kind == h.EvTable {
					evBad = ev.Brief()
				}
			})
			if evBad != "" {
				c.Violate("C13/failed-action-produced-an-event", fmt.Sprintf("failed %s by %s produced %s", act, pid, evBad), w())
				return false
			}
		}
		c.Violate("C13/action-not-accepted-on-retry", fmt.Sprintf("%s %s still failing after 200 attempts", pid, act), w())
		return false
	}
	s.SignalAll(h.SetupIDs(e.Setup))
	hd := s.PlayHand(script)
	calls := rig.Snapshot()
	for _, bc := range calls {
		if bc.Inject {
			injected = append(injected, bc)
			c.Feature("fault:" + bc.Kind)
			if bc.ReplyLost {
				c.Feature("fault:reply-lost:" + bc.Kind)
			}
			if bc.StateWithError {
				c.Feature("fault:state-with-error:" + bc.Kind)
			}
			c.FP(bc.Kind, bc.N)
		}
	}
	c.Count("faults_injected", int64(len(injected)))
	c.Count("backend_calls", int64(len(calls)))
	if c.Failed() {
		return
	}
	// chain continuity over successful calls
	lastOut := ""
	for _, bc := range calls {
		if bc.Err != "" {
			continue
		}
		if bc.Kind != "CreateGame" && bc.InID != lastOut {
			c.Violate("C13/hand-state-chain-broken", fmt.Sprintf("call #%d %s was given state %s but the last successfully produced state is %s", bc.N, bc.Kind, bc.InID, lastOut), w())
			return
		}
		lastOut = bc.OutID
	}
	// engine-step failures must be reported through the error callback
	engineFault := false
	for _, bc := range injected {
		if !playerKinds[bc.Kind] {
			engineFault = true
			// wait a little for the asynchronous error notification
			found := false
			dl := time.Now().Add(3 * time.Second)
			for !found && time.Now().Before(dl) {
				s.Drain(script.OnEvent)
				for _, es := range errEvents {
					if strings.Contains(es, h.ErrInjected.Error()) {
						found = true
					}
				}
				if !found {
					time.Sleep(2 * time.Millisecond)
				}
			}
			if !found {
				c.Violate("C13/engine-step-failure-not-reported/"+bc.Kind, fmt.Sprintf("the backend failed in %s (call #%d, performed by the engine itself) and no table error notification carried the error; errors seen: %v", bc.Kind, bc.N, errEvents), w())
				return
			}
			c.Feature("engine-step-failure-reported:" + bc.Kind)
		}
	}
	if engineFault {
		// the engine does not retry its own steps: the hand ends here, nothing more to judge
		c.Nontrivial()
		c.Sample(map[string]interface{}{"plan": plan, "scenario": scenario, "injected": briefCalls(injected), "outcome": "engine-step failure reported through OnTableErrorUpdated"})
		return
	}
	if hd.Settled == nil {
		if len(injected) == 0 && hd.Timeout {
			c.InconclusiveW("foreign: hand did not settle although no fault was injected", w())
			return
		}
		c.Violate("C13/hand-did-not-finish-after-failures", fmt.Sprintf("%d player-action failures were injected and retried, but the hand did not settle", len(injected)), w())
		return
	}
	// replay of the successful steps on a fresh backend
	var create *h.BCall
	for _, bc := range calls {
		if bc.Kind == "CreateGame" && bc.Err == "" {
			create = bc
		}
	}
	if create == nil || create.Out == nil {
		c.Inconclusive("no CreateGame record")
		return
	}
	nb := pt.NewNativeGameBackend()
	curB, _ := json.Marshal(create.Out)
	var cur *pokerface.GameState = &pokerface.GameState{}
	json.Unmarshal(curB, cur)
	for _, bc := range calls {
		if bc.Err != "" || bc.Kind == "CreateGame" || bc.N < create.N {
			continue
		}
		nxt, err := applyCall(nb, cur, bc)
		if err != nil {
			c.Violate("C13/replay-diverged", fmt.Sprintf("replaying the successfully applied steps on a fresh backend fails at #%d %s: %v", bc.N, bc.Kind, err), w())
			return
		}
		if !bytes.Equal(normState(nxt), normState(bc.Out)) {
			c.Violate("C13/replay-diverged", fmt.Sprintf("state after #%d %s differs from the replay of the successful steps alone", bc.N, bc.Kind), w())
			return
		}
		cur = nxt
	}
	final := hd.Settled.T.State.GameState
	if !bytes.Equal(normState(final), normState(cur)) {
		c.Violate("C13/final-state-differs-from-replay", "the settled hand state is not the state produced by the successfully applied steps alone", map[string]interface{}{"w": w(), "settled": string(normState(final)), "replay": string(normState(cur))})
		return
	}
	if len(injected) > 0 {
		c.Nontrivial()
	}
	c.Feature("plan:" + plan.Mode)
	c.Sample(map[string]interface{}{"plan": plan, "scenario": scenario, "injected": briefCalls(injected), "backend_calls": len(calls), "retries": retries, "outcome": "hand settled; final state = replay of successful steps"})
}

func init() {
	h.Register(&h.Check{
		ID:        "C13",
		Level:     "fault_enumeration",
		Technique: "runtime fault injection at the pluggable game-backend boundary: for generated hands every backend-call ordinal 0..27 fails once and three times in a row, every call kind fails, plus random multi-fault runs; oracle = error to caller, table JSON unchanged, retry accepted, unbroken state chain, final state equal to a replay of the successful steps on a fresh native backend, engine-step failures seen by the table error callback",
		Rule: "case = (scenario, fault plan): scenario = table config (2..6 players, default / short deck, ante on/off, CT/cash), deck and betting policy; plans per scenario = ordinal k in 0..27 x {fail once, fail three times}, each of 12 call kinds failing (alternate calls), 8 random plans (10..80 % of player-action calls fail); quick = 5 scenarios, thorough = 50; " +
			"non-trivial = at least one fault was actually injected (an ordinal beyond the hand's length injects nothing); distinct = set of (kind, ordinal) injected",
		Assumptions: []string{"the engine's own first-button randomness makes the call sequence of a scenario vary between runs; coverage is reported as distinct (kind, ordinal) pairs actually injected, not claimed exhaustive", "after a failure in a step the engine performs itself the engine does not retry; only the error report is judged there"},
		Cases:       func(tier string) int { return map[string]int{"quick": 500, "thorough": 5000}[tier] },
		MinNontrivial: func(tier string) int {
			return map[string]int{"quick": 180, "thorough": 1800}[tier]
		},
		RequiredFeatures: func(string) []string {
			return []string{"fault:ReadyForAll", "fault:PayBlinds", "fault:Next", "fault:CreateGame", "fault:Call", "fault:Fold", "fault:Check", "fault:Allin", "fault:Bet", "fault:Raise", "fault:reply-lost:Raise", "fault:reply-lost:Call", "fault:reply-lost:Next", "engine-step-failure-reported:Next", "engine-step-failure-reported:ReadyForAll", "engine-step-failure-reported:CreateGame", "plan:random", "plan:ordinal", "released-while-the-hand-runs", "fault:state-with-error:Call"}
		},
		CaseTimeout: 120e9,
		InProc:      2,
		Run:         c13Run,
	})
}
