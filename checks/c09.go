package checks

import (
	"encoding/json"
	"fmt"
	"strings"
	"sync"
	"sync/atomic"
	"time"

	ogm "github.com/weedbox/pokertable/open_game_manager"

	h "verif/harness"
)

// C09 — the open-game gate fires once, and only when everyone is ready or timed out.
// Subject: open_game_manager alone (timeout 1 s, or 0 = none).

type gateFire struct {
	mono    int64
	gc      int
	parts   map[string]bool // id -> reported ready
	nsignal int64           // number of distinct participants whose Ready call had been issued when the callback ran
}

type gateRig struct {
	m      ogm.OpenGameManager
	mu     sync.Mutex
	fires  []gateFire
	issued int64 // distinct expected participants signalled so far in the current generation (maintained by the script)
}

func newGate(timeout int) *gateRig {
	g := &gateRig{}
	g.m = ogm.NewOpenGameManager(ogm.OpenGameOption{Timeout: timeout, OnOpenGameReady: g.onReady})
	return g
}

func (g *gateRig) onReady(st ogm.OpenGameState) {
	f := gateFire{mono: h.Mono(), gc: st.GameCount, parts: map[string]bool{}, nsignal: atomic.LoadInt64(&g.issued)}
	for id, p := range st.Participants {
		f.parts[id] = p.IsReady
	}
	g.mu.Lock()
	g.fires = append(g.fires, f)
	g.mu.Unlock()
}

func (g *gateRig) nfires() int {
	g.mu.Lock()
	defer g.mu.Unlock()
	return len(g.fires)
}

func (g *gateRig) waitFires(n int, d time.Duration) bool {
	dl := time.Now().Add(d)
	for time.Now().Before(dl) {
		if g.nfires() >= n {
			return true
		}
		time.Sleep(200 * time.Microsecond)
	}
	return g.nfires() >= n
}

func partsMap(ids []string) map[string]int {
	m := map[string]int{}
	for i, id := range ids {
		m[id] = i
	}
	return m
}

func idsN(n int, prefix string) []string {
	out := make([]string, n)
	for i := range out {
		out[i] = fmt.Sprintf("%s%d", prefix, i)
	}
	return out
}

// checkFire validates one callback against the generation it must belong to.
func c09CheckFire(c *h.Ctx, f gateFire, gc int, ids []string, needAllSignalled bool, w interface{}) bool {
	if f.gc != gc {
		c.Violate("C09/reported-game-count", fmt.Sprintf("callback reports game count %d, the set-up was for %d", f.gc, gc), w)
		return false
	}
	if len(f.parts) != len(ids) {
		c.Violate("C09/reported-participants", fmt.Sprintf("callback reports %d participants %v, the set-up named %v", len(f.parts), f.parts, ids), w)
		return false
	}
	for _, id := range ids {
		rdy, ok := f.parts[id]
		if !ok || !rdy {
			c.Violate("C09/reported-participant-not-ready", fmt.Sprintf("callback reports participant %s present=%v ready=%v", id, ok, rdy), w)
			return false
		}
	}
	if needAllSignalled && int(f.nsignal) < len(ids) {
		c.Violate("C09/fired-before-all-ready", fmt.Sprintf("callback ran when only %d of %d participants had signalled (no timeout configured or not yet elapsed)", f.nsignal, len(ids)), w)
		return false
	}
	return true
}

// runOrder: one generation, signals in the given order (may contain duplicates and unknown ids). No timeout.
func c09Order(c *h.Ctx, g *gateRig, gc int, ids []string, order []string) bool {
	base := g.nfires()
	atomic.StoreInt64(&g.issued, 0)
	g.m.Setup(gc, partsMap(ids))
	known := map[string]bool{}
	for _, id := range ids {
		known[id] = true
	}
	seen := map[string]bool{}
	w := map[string]interface{}{"game_count": gc, "participants": ids, "signals": order}
	for i, id := range order {
		if known[id] && !seen[id] {
			seen[id] = true
			atomic.AddInt64(&g.issued, 1)
		}
		err := g.m.Ready(id)
		if known[id] && err != nil {
			c.Violate("C09/known-participant-rejected", fmt.Sprintf("Ready(%s) returned %v", id, err), w)
			return false
		}
		if !known[id] && err == nil {
			c.Violate("C09/unknown-participant-accepted", fmt.Sprintf("Ready(%s) for an id that is not in the set-up returned nil", id), w)
			return false
		}
		if len(seen) < len(ids) {
			// must not have fired yet (no timeout configured)
			if i%3 == 0 {
				time.Sleep(50 * time.Microsecond)
			}
			if g.nfires() > base {
				g.mu.Lock()
				w["fires_of_this_gate"] = fmt.Sprintf("%+v", g.fires)
				w["fires_before_this_set_up"] = base
				g.mu.Unlock()
				c.Violate("C09/fired-before-all-ready", fmt.Sprintf("callback ran after signals %v although %d of %d participants had not signalled", order[:i+1], len(ids)-len(seen), len(ids)), w)
				return false
			}
		}
	}
	if len(seen) < len(ids) {
		return true // incomplete on purpose
	}
	if !g.waitFires(base+1, 5*time.Second) {
		c.Violate("C09/never-fired", fmt.Sprintf("all %d participants signalled but the callback did not run within 5 s", len(ids)), w)
		return false
	}
	time.Sleep(300 * time.Microsecond)
	if n := g.nfires(); n != base+1 {
		c.Violate("C09/fired-more-than-once", fmt.Sprintf("%d callbacks for one set-up", n-base), w)
		return false
	}
	g.mu.Lock()
	f := g.fires[base]
	g.mu.Unlock()
	return c09CheckFire(c, f, gc, ids, true, w)
}

func permute(a []string, f func([]string) bool) bool {
	var rec func(int) bool
	rec = func(k int) bool {
		if k == len(a) {
			return f(append([]string{}, a...))
		}
		for i := k; i < len(a); i++ {
			a[k], a[i] = a[i], a[k]
			if !rec(k + 1) {
				return false
			}
			a[k], a[i] = a[i], a[k]
		}
		return true
	}
	return rec(0)
}

func c09Exhaustive(c *h.Ctx) {
	g := newGate(0)
	gc := 0
	gens := 0
	for n := 1; n <= 4; n++ {
		ids := idsN(n, "p")
		ok := permute(append([]string{}, ids...), func(order []string) bool {
			// plain order, order with every signal doubled, order with an unknown id at each position
			variants := [][]string{order}
			dbl := []string{}
			for _, id := range order {
				dbl = append(dbl, id, id)
			}
			variants = append(variants, dbl)
			for pos := 0; pos <= len(order); pos++ {
				v := append(append(append([]string{}, order[:pos]...), "stranger"), order[pos:]...)
				variants = append(variants, v)
			}
			// repeats after completion
			variants = append(variants, append(append([]string{}, order...), order...))
			for _, v := range variants {
				gc++
				gens++
				if !c09Order(c, g, gc, ids, v) {
					return false
				}
			}
			return true
		})
		if !ok {
			return
		}
	}
	c.Count("generations", int64(gens))
	c.Feature("orders:exhaustive<=4")
	c.Nontrivial()
	c.FP("exhaustive")
	c.Sample(map[string]interface{}{"kind": "all signal orders for 1..4 participants, with doubled signals, an unknown id at every position and repeats after completion", "generations": gens})
}

func c09Random(c *h.Ctx) {
	r := c.R
	g := newGate(0)
	gens := 0
	for k := 0; k < 40 && !c.Failed(); k++ {
		n := 5 + r.Intn(6)
		ids := idsN(n, fmt.Sprintf("g%d_", k))
		order := append([]string{}, ids...)
		r.Shuffle(len(order), func(i, j int) { order[i], order[j] = order[j], order[i] })
		for j := r.Intn(4); j > 0; j-- {
			pos := r.Intn(len(order) + 1)
			x := "stranger"
			switch r.Intn(6) {
			case 0, 1, 2:
				x = order[r.Intn(len(order))]
			case 3:
				// (round 7) an id that merely looks like a participant's: letter case, blank, prefix
				id := ids[r.Intn(len(ids))]
				x = []string{strings.ToUpper(id), id + " ", id[:len(id)-1] + "x", ""}[r.Intn(4)]
				c.Feature("unknown-id:look-alike")
			case 4:
				// (round 7) a participant of the previous set-up of this gate is unknown to this one
				if k > 0 {
					x = fmt.Sprintf("g%d_%d", k-1, r.Intn(5))
					c.Feature("unknown-id:participant-of-the-previous-set-up")
				}
			}
			order = append(append(append([]string{}, order[:pos]...), x), order[pos:]...)
		}
		gens++
		if !c09Order(c, g, 100+k, ids, order) {
			return
		}
	}
	c.Count("generations", int64(gens))
	c.Feature("orders:random-5..10")
	c.Nontrivial()
	c.FP("random", c.Seed)
	c.Sample(map[string]interface{}{"kind": "random orders with duplicates and unknown ids, 5..10 participants", "generations": gens})
}

// c09Timeout: some participants never signal; the callback may only run after the timeout and must run once.
func c09Timeout(c *h.Ctx) {
	r := c.R
	const K = 24
	var wg sync.WaitGroup
	var mu sync.Mutex
	for k := 0; k < K; k++ {
		wg.Add(1)
		go func(k int, seed int64) {
			defer wg.Done()
			n := 1 + int(seed%10)
			withheld := 1 + int((seed/16)%int64(n))
			ids := idsN(n, "t")
			g := newGate(1)
			start := h.Mono()
			g.m.Setup(500+k, partsMap(ids))
			for _, id := range ids[withheld:] {
				atomic.AddInt64(&g.issued, 1)
				g.m.Ready(id)
			}
			w := map[string]interface{}{"participants": n, "withheld": withheld}
			ok := g.waitFires(1, 9*time.Second)
			mu.Lock()
			defer mu.Unlock()
			if c.Failed() {
				return
			}
			if !ok {
				c.Violate("C09/never-fired-after-timeout", fmt.Sprintf("%d of %d participants never signalled; 9 s after the set-up (timeout 1 s) the callback has not run", withheld, n), w)
				return
			}
			g.mu.Lock()
			f := g.fires[0]
			g.mu.Unlock()
			if el := time.Duration(f.mono - start); el < 1000*time.Millisecond-5*time.Millisecond {
				c.Violate("C09/fired-before-all-ready", fmt.Sprintf("%d of %d participants had not signalled and the callback ran %v after the set-up (timeout 1 s)", withheld, n, el), w)
				return
			}
			time.Sleep(50 * time.Millisecond)
			if g.nfires() != 1 {
				c.Violate("C09/fired-more-than-once", fmt.Sprintf("%d callbacks after a timeout", g.nfires()), w)
				return
			}
			c09CheckFire(c, f, 500+k, ids, false, w)
		}(k, r.Int63())
	}
	wg.Wait()
	c.Count("generations", K)
	c.Feature("timeout-path")
	c.Nontrivial()
	c.FP("timeout", c.Seed)
	c.Sample(map[string]interface{}{"kind": "withheld signals, timeout 1 s", "generations": K})
}

// c09Supersede: a new set-up at every prefix of pending signals; the old one never fires.
func c09Supersede(c *h.Ctx) {
	r := c.R
	gens := 0
	for k := 0; k < 30 && !c.Failed(); k++ {
		g := newGate(0)
		n1 := 2 + r.Intn(5)
		ids1 := idsN(n1, "a")
		prefix := r.Intn(n1) // 0..n1-1 signals before the new set-up: the first one is unfinished
		atomic.StoreInt64(&g.issued, 0)
		g.m.Setup(1, partsMap(ids1))
		for _, id := range ids1[:prefix] {
			g.m.Ready(id)
		}
		n2 := 1 + r.Intn(5)
		ids2 := idsN(n2, "b")
		if r.Intn(3) == 0 {
			ids2 = append(ids2, ids1[0]) // overlapping participant sets
		}
		w := map[string]interface{}{"first": ids1, "signalled_of_first": prefix, "second": ids2}
		g.m.Setup(2, partsMap(ids2))
		gens += 2
		// late signals for the first set-up: unknown now (unless also in the second)
		in2 := map[string]bool{}
		for _, id := range ids2 {
			in2[id] = true
		}
		for _, id := range ids1[prefix:] {
			if !in2[id] {
				if err := g.m.Ready(id); err == nil {
					c.Violate("C09/unknown-participant-accepted", fmt.Sprintf("Ready(%s): participant of a superseded set-up accepted by the new one", id), w)
					return
				}
			}
		}
		time.Sleep(300 * time.Microsecond)
		if g.nfires() != 0 {
			c.Violate("C09/superseded-set-up-fired", fmt.Sprintf("callback ran although the first set-up was superseded and nobody of the second has signalled: %+v", g.fires), w)
			return
		}
		order := append([]string{}, ids2...)
		r.Shuffle(len(order), func(i, j int) { order[i], order[j] = order[j], order[i] })
		for _, id := range order {
			atomic.AddInt64(&g.issued, 1)
			if err := g.m.Ready(id); err != nil {
				c.Violate("C09/known-participant-rejected", fmt.Sprintf("Ready(%s) -> %v", id, err), w)
				return
			}
		}
		if !g.waitFires(1, 5*time.Second) {
			c.Violate("C09/never-fired", "second set-up complete but no callback within 5 s", w)
			return
		}
		time.Sleep(300 * time.Microsecond)
		if g.nfires() != 1 {
			c.Violate("C09/fired-more-than-once", fmt.Sprintf("%d callbacks", g.nfires()), w)
			return
		}
		if !c09CheckFire(c, g.fires[0], 2, ids2, true, w) {
			return
		}
	}
	// the very same set-up announced again (same game count, same participants) also supersedes the unfinished one:
	// the signals given before it no longer count, and after a completed one it is a new round that fires once more
	for k := 0; k < 12 && !c.Failed(); k++ {
		g := newGate(0)
		n := 2 + r.Intn(5)
		ids := idsN(n, "r")
		parts := partsMap(ids)
		prefix := 1 + r.Intn(n) // 1..n signals before the repeated set-up (n = the first one had fired already)
		atomic.StoreInt64(&g.issued, 0)
		g.m.Setup(7, parts)
		for _, id := range ids[:prefix] {
			atomic.AddInt64(&g.issued, 1)
			g.m.Ready(id)
		}
		firesBefore := 0
		if prefix == n {
			if !g.waitFires(1, 5*time.Second) {
				c.Violate("C09/never-fired", "set-up complete but no callback within 5 s", map[string]interface{}{"participants": ids})
				return
			}
			firesBefore = 1
		}
		w := map[string]interface{}{"participants": ids, "signalled_before_the_repeated_set_up": prefix}
		atomic.StoreInt64(&g.issued, 0)
		g.m.Setup(7, partsMap(ids))
		gens += 2
		for id, p := range g.m.GetState().Participants {
			if p.IsReady {
				c.Violate("C09/repeated-set-up-kept-ready-flags", fmt.Sprintf("right after the repeated set-up participant %s is reported ready", id), w)
				return
			}
		}
		order := append([]string{}, ids...)
		r.Shuffle(len(order), func(i, j int) { order[i], order[j] = order[j], order[i] })
		for i, id := range order {
			time.Sleep(100 * time.Microsecond)
			if g.nfires() != firesBefore {
				c.Violate("C09/fired-before-all-ready", fmt.Sprintf("the same set-up was announced again after %d signals; the gate fired after only %d of %d new signals", prefix, i, n), w)
				return
			}
			atomic.AddInt64(&g.issued, 1)
			if err := g.m.Ready(id); err != nil {
				c.Violate("C09/known-participant-rejected", fmt.Sprintf("Ready(%s) -> %v", id, err), w)
				return
			}
		}
		if !g.waitFires(firesBefore+1, 5*time.Second) {
			c.Violate("C09/never-fired", fmt.Sprintf("the same set-up was announced again (the first had fired: %v); everybody signalled again and no callback came within 5 s", firesBefore == 1), w)
			return
		}
		time.Sleep(300 * time.Microsecond)
		if g.nfires() != firesBefore+1 {
			c.Violate("C09/fired-more-than-once", fmt.Sprintf("%d callbacks", g.nfires()), w)
			return
		}
		c.Feature("same-set-up-announced-again")
	}
	// the same with a timeout configured: the superseded set-up's timeout must not fire it later either
	{
		const K = 12
		var wg sync.WaitGroup
		var mu sync.Mutex
		for k := 0; k < K; k++ {
			wg.Add(1)
			go func(k int, seed int64) {
				defer wg.Done()
				g := newGate(1)
				n1 := 2 + int(seed%4)
				ids1 := idsN(n1, "ta")
				g.m.Setup(21, partsMap(ids1))
				for _, id := range ids1[:int(seed/8)%n1] {
					g.m.Ready(id)
				}
				time.Sleep(time.Duration(seed%300) * time.Microsecond)
				ids2 := idsN(1+int(seed/64)%3, "tb")
				g.m.Setup(22, partsMap(ids2))
				complete := (seed/512)%2 == 0
				if complete {
					for _, id := range ids2 {
						atomic.AddInt64(&g.issued, 1)
						g.m.Ready(id)
					}
				}
				time.Sleep(2300 * time.Millisecond) // both timeouts (1 s) have passed
				g.mu.Lock()
				fs := append([]gateFire{}, g.fires...)
				g.mu.Unlock()
				mu.Lock()
				defer mu.Unlock()
				if c.Failed() {
					return
				}
				w := map[string]interface{}{"first": ids1, "second": ids2, "second_completed_by_signals": complete, "fires": fmt.Sprintf("%+v", fs)}
				n22 := 0
				for _, f := range fs {
					if f.gc == 21 {
						c.Violate("C09/superseded-set-up-fired", "a set-up that was superseded while unfinished fired later (timeout 1 s): the callback reports game count 21", w)
						return
					}
					if f.gc == 22 {
						n22++
					}
				}
				if n22 != 1 {
					c.Violate("C09/fired-more-than-once", fmt.Sprintf("the superseding set-up (timeout 1 s) fired %d times within 2.3 s", n22), w)
				}
			}(k, r.Int63())
		}
		wg.Wait()
		gens += 2 * K
		c.Feature("supersede-unfinished-with-timeout")
	}
	c.Count("generations", int64(gens))
	c.Feature("supersede-unfinished")
	// a set-up issued right after the previous one completed: the finished one may fire (once, reporting
	// itself), the new one must fire once and only after its own participants signalled
	for k := 0; k < 150 && !c.Failed(); k++ {
		g := newGate(0)
		atomic.StoreInt64(&g.issued, 0)
		g.m.Setup(10, partsMap([]string{"x"}))
		g.m.Ready("x")
		for spin := r.Intn(2000); spin > 0; spin-- {
		}
		g.m.Setup(11, partsMap([]string{"y", "z"}))
		time.Sleep(time.Duration(r.Intn(300)) * time.Microsecond)
		w := map[string]interface{}{"scenario": "Setup(10,{x}); Ready(x); Setup(11,{y,z}); Ready(y); Ready(z)", "trial": k}
		check := func(final bool) bool {
			g.mu.Lock()
			fs := append([]gateFire{}, g.fires...)
			g.mu.Unlock()
			n10, n11 := 0, 0
			for _, f := range fs {
				switch f.gc {
				case 10:
					n10++
					if len(f.parts) != 1 || !f.parts["x"] {
						c.Violate("C09/reported-participants", fmt.Sprintf("completion of set-up 10 reports %v", f.parts), w)
						return false
					}
				case 11:
					n11++
					if int(f.nsignal) < 2 {
						c.Violate("C09/fired-before-all-ready/completion-of-finished-set-up-reports-the-superseding-one", fmt.Sprintf("a callback reports game count 11 with %v although only %d of y,z had signalled", f.parts, f.nsignal), w)
						return false
					}
				default:
					c.Violate("C09/reported-game-count", fmt.Sprintf("callback reports game count %d", f.gc), w)
					return false
				}
			}
			if n10 > 1 || n11 > 1 || (final && n11 != 1) {
				c.Violate("C09/fired-more-than-once", fmt.Sprintf("set-up 10 fired %d times, set-up 11 fired %d times (expected at most once / exactly once)", n10, n11), w)
				return false
			}
			return true
		}
		if !check(false) {
			return
		}
		atomic.AddInt64(&g.issued, 1)
		g.m.Ready("y")
		time.Sleep(100 * time.Microsecond)
		if !check(false) {
			return
		}
		atomic.AddInt64(&g.issued, 1)
		g.m.Ready("z")
		dl := time.Now().Add(5 * time.Second)
		for time.Now().Before(dl) {
			g.mu.Lock()
			n := 0
			for _, f := range g.fires {
				if f.gc == 11 {
					n++
				}
			}
			g.mu.Unlock()
			if n > 0 {
				break
			}
			time.Sleep(100 * time.Microsecond)
		}
		time.Sleep(200 * time.Microsecond)
		if !check(true) {
			if !c.Failed() {
				c.Violate("C09/never-fired", "set-up 11 complete but no callback within 5 s", w)
			}
			return
		}
		gens += 2
	}
	c.Feature("re-set-up-right-after-completion")
	c.Nontrivial()
	c.FP("supersede", c.Seed)
	c.Sample(map[string]interface{}{"kind": "re-set-up at a prefix of pending signals (old one must never fire), plus re-set-up right after completion", "generations": gens})
}

// c09Rebuild: a gate rebuilt from a saved pending state behaves like the original.
func c09Rebuild(c *h.Ctx) {
	r := c.R
	gens := 0
	for k := 0; k < 20 && !c.Failed(); k++ {
		timeout := 0
		if k%5 == 4 {
			timeout = 1
		}
		g := newGate(timeout)
		n := 1 + r.Intn(8)
		ids := idsN(n, "s")
		r.Shuffle(len(ids), func(i, j int) { ids[i], ids[j] = ids[j], ids[i] })
		nready := r.Intn(n) // 0..n-1 already ready when saved
		g.m.Setup(40+k, partsMap(ids))
		for _, id := range ids[:nready] {
			g.m.Ready(id)
		}
		time.Sleep(200 * time.Microsecond)
		raw, _ := json.Marshal(g.m.GetState())
		var saved ogm.OpenGameState
		json.Unmarshal(raw, &saved)
		w := map[string]interface{}{"saved_state": json.RawMessage(raw), "timeout": timeout}
		// saved state must say who is ready
		for i, id := range ids {
			p, ok := saved.Participants[id]
			if !ok || p.IsReady != (i < nready) {
				c.Violate("C09/saved-state-wrong", fmt.Sprintf("participant %s saved as %+v, signalled=%v", id, p, i < nready), w)
				return
			}
		}
		g2 := &gateRig{}
		atomic.StoreInt64(&g2.issued, int64(nready))
		start := h.Mono()
		g2.m = ogm.NewOpenGameManagerFromState(saved, ogm.OpenGameOption{Timeout: timeout, OnOpenGameReady: g2.onReady})
		gens++
		rest := ids[nready:]
		withhold := timeout == 1
		if withhold {
			rest = rest[1:]
		}
		for i, id := range rest {
			time.Sleep(100 * time.Microsecond)
			if g2.nfires() > 0 {
				c.Violate("C09/rebuilt-gate-fired-before-all-ready", fmt.Sprintf("rebuilt gate fired after %d of %d remaining signals", i, len(ids)-nready), w)
				return
			}
			atomic.AddInt64(&g2.issued, 1)
			if err := g2.m.Ready(id); err != nil {
				c.Violate("C09/known-participant-rejected", fmt.Sprintf("rebuilt gate: Ready(%s) -> %v", id, err), w)
				return
			}
		}
		if err := g2.m.Ready("stranger"); err == nil {
			c.Violate("C09/unknown-participant-accepted", "rebuilt gate accepted an unknown participant", w)
			return
		}
		wait := 5 * time.Second
		if withhold {
			wait = 9 * time.Second
		}
		if !g2.waitFires(1, wait) {
			c.Violate("C09/rebuilt-gate-never-fired", fmt.Sprintf("rebuilt gate (%d ready in the saved state, the other %d signalled, timeout %d) did not fire within %v", nready, len(rest), timeout, wait), w)
			return
		}
		g2.mu.Lock()
		f := g2.fires[0]
		g2.mu.Unlock()
		if withhold {
			if el := time.Duration(f.mono - start); el < 995*time.Millisecond {
				c.Violate("C09/rebuilt-gate-fired-before-all-ready", fmt.Sprintf("one participant withheld, rebuilt gate fired after %v (timeout 1 s)", el), w)
				return
			}
		} else if el := time.Duration(f.mono - start); timeout == 0 && el > 4*time.Second {
			c.Violate("C09/rebuilt-gate-late", fmt.Sprintf("fired only after %v", el), w)
			return
		}
		time.Sleep(300 * time.Microsecond)
		if g2.nfires() != 1 {
			c.Violate("C09/fired-more-than-once", fmt.Sprintf("rebuilt gate: %d callbacks", g2.nfires()), w)
			return
		}
		if !c09CheckFire(c, f, 40+k, ids, !withhold, w) {
			return
		}
		if nready > 0 && nready < n {
			c.Feature("rebuild:mixed-ready-state")
		}
	}
	// a snapshot taken after the gate has fired (everybody ready): the rebuilt gate is that finished gate, it does not
	// fire again by itself
	for k := 0; k < 4 && !c.Failed(); k++ {
		g := newGate(0)
		ids := idsN(1+r.Intn(5), "f")
		g.m.Setup(90+k, partsMap(ids))
		for _, id := range ids {
			atomic.AddInt64(&g.issued, 1)
			g.m.Ready(id)
		}
		if !g.waitFires(1, 5*time.Second) {
			c.Violate("C09/never-fired", "set-up complete but no callback within 5 s", nil)
			return
		}
		raw, _ := json.Marshal(g.m.GetState())
		var saved ogm.OpenGameState
		json.Unmarshal(raw, &saved)
		g2 := &gateRig{}
		atomic.StoreInt64(&g2.issued, int64(len(ids)))
		g2.m = ogm.NewOpenGameManagerFromState(saved, ogm.OpenGameOption{Timeout: 0, OnOpenGameReady: g2.onReady})
		time.Sleep(30 * time.Millisecond)
		if g2.nfires() != 0 {
			c.Violate("C09/fired-more-than-once/rebuilt-from-a-finished-gate", fmt.Sprintf("a gate rebuilt from the snapshot of a gate that had already fired (game count %d) ran the callback again", 90+k), map[string]interface{}{"saved_state": json.RawMessage(raw)})
			return
		}
		gens++
		c.Feature("rebuild:from-finished-gate")
	}
	// the rebuilt gate runs on the options it was rebuilt with, also for every later set-up: the snapshot came from a
	// gate with another timeout (none / 3 s), the rebuilt one is configured with 1 s
	{
		var wg sync.WaitGroup
		var mu sync.Mutex
		for _, snapTimeout := range []int{0, 3} {
			wg.Add(1)
			go func(snapTimeout int) {
				defer wg.Done()
				g := newGate(snapTimeout)
				ids := idsN(3, "o")
				g.m.Setup(70, partsMap(ids))
				g.m.Ready(ids[0])
				raw, _ := json.Marshal(g.m.GetState())
				var saved ogm.OpenGameState
				json.Unmarshal(raw, &saved)
				g2 := &gateRig{}
				g2.m = ogm.NewOpenGameManagerFromState(saved, ogm.OpenGameOption{Timeout: 1, OnOpenGameReady: g2.onReady})
				atomic.StoreInt64(&g2.issued, 3)
				g2.m.Ready(ids[1])
				g2.m.Ready(ids[2])
				ok1 := g2.waitFires(1, 5*time.Second)
				start := h.Mono()
				atomic.StoreInt64(&g2.issued, 0)
				g2.m.Setup(71, partsMap(ids)) // a later set-up on the rebuilt gate; one participant never signals
				atomic.AddInt64(&g2.issued, 2)
				g2.m.Ready(ids[0])
				g2.m.Ready(ids[1])
				ok2 := g2.waitFires(2, 6*time.Second)
				mu.Lock()
				defer mu.Unlock()
				if c.Failed() {
					return
				}
				w := map[string]interface{}{"snapshot_timeout": snapTimeout, "rebuilt_with_timeout": 1}
				if !ok1 {
					c.Violate("C09/rebuilt-gate-never-fired", "rebuilt gate did not fire after the remaining signals", w)
					return
				}
				if !ok2 {
					c.Violate("C09/never-fired-after-timeout/later-set-up-on-rebuilt-gate", fmt.Sprintf("gate rebuilt with a 1 s timeout from a snapshot taken at timeout %d: a later set-up with one participant silent has not fired 6 s after it", snapTimeout), w)
					return
				}
				g2.mu.Lock()
				f := g2.fires[1]
				g2.mu.Unlock()
				if el := time.Duration(f.mono - start); el < 995*time.Millisecond || el > 2500*time.Millisecond {
					c.Violate("C09/timeout-of-rebuilt-gate-not-the-configured-one", fmt.Sprintf("gate rebuilt with a 1 s timeout from a snapshot taken at timeout %d: a later set-up with one participant silent fired after %v", snapTimeout, el), w)
					return
				}
				c.Feature("rebuild:later-set-up-uses-configured-timeout")
			}(snapTimeout)
		}
		wg.Wait()
		gens += 4
	}
	c.Count("generations", int64(gens))
	c.Feature("rebuild-from-saved-state")
	c.Nontrivial()
	c.FP("rebuild", c.Seed)
	c.Sample(map[string]interface{}{"kind": "gate rebuilt from a saved pending state (JSON round trip)", "generations": gens})
}

// c09RepeatsThenSetup: a set-up has fired; one participant keeps signalling (repeats: "change nothing") and the next
// set-up follows at once, while some repeats may still be queued inside the gate. The finished set-up must not fire
// a second time, and the new one only after all its participants have signalled.
func c09RepeatsThenSetup(c *h.Ctx) {
	r := c.R
	trials := 300
	if c.Thorough() {
		trials = 1500
	}
	for k := 0; k < trials && !c.Failed(); k++ {
		g := newGate(0)
		n := 1 + r.Intn(4)
		ids := idsN(n, "q")
		gc := 1000 + 2*k
		g.m.Setup(gc, partsMap(ids))
		for _, id := range ids {
			atomic.AddInt64(&g.issued, 1)
			g.m.Ready(id)
		}
		if !g.waitFires(1, 5*time.Second) {
			c.Violate("C09/never-fired", "set-up complete but no callback within 5 s", nil)
			return
		}
		reps := 1 + r.Intn(60)
		for j := 0; j < reps; j++ {
			g.m.Ready(ids[r.Intn(n)])
		}
		ids2 := idsN(1+r.Intn(3), "z")
		atomic.StoreInt64(&g.issued, 0)
		g.m.Setup(gc+1, partsMap(ids2))
		time.Sleep(time.Duration(200+r.Intn(1500)) * time.Microsecond)
		g.mu.Lock()
		fs := append([]gateFire{}, g.fires...)
		g.mu.Unlock()
		old, nw := 0, 0
		for _, f := range fs {
			if f.gc == gc {
				old++
			} else {
				nw++
			}
		}
		if old != 1 || nw != 0 {
			c.Violate("C09/fired-more-than-once/finished-set-up-fired-again", fmt.Sprintf("set-up %d had fired; %d repeated signals and the next set-up followed at once: %d callbacks for set-up %d, %d for the new one (nobody of which has signalled)", gc, reps, old, gc, nw), map[string]interface{}{"participants": ids, "fires": fmt.Sprintf("%+v", fs)})
			return
		}
	}
	c.Count("generations", int64(2*trials))
	c.Feature("repeats-then-next-set-up")
	c.Nontrivial()
	c.FP("repeats-then-setup", c.Seed)
	c.Sample(map[string]interface{}{"kind": "repeated signals after completion followed at once by the next set-up", "trials": trials})
}

// c09Concurrent: every participant is signalled by its own goroutine (plus duplicates); exactly one callback.
func c09Concurrent(c *h.Ctx) {
	r := c.R
	gens := 0
	for k := 0; k < 40 && !c.Failed(); k++ {
		g := newGate(0)
		n := 2 + r.Intn(9)
		ids := idsN(n, "c")
		atomic.StoreInt64(&g.issued, int64(n)) // all are issued "at once"
		g.m.Setup(70+k, partsMap(ids))
		var wg sync.WaitGroup
		start := make(chan struct{})
		for _, id := range ids {
			for d := 0; d < 1+r.Intn(3); d++ {
				wg.Add(1)
				go func(id string) {
					defer wg.Done()
					<-start
					g.m.Ready(id)
				}(id)
			}
		}
		close(start)
		wg.Wait()
		gens++
		w := map[string]interface{}{"participants": n}
		if !g.waitFires(1, 5*time.Second) {
			c.Violate("C09/never-fired", "all participants signalled concurrently, no callback within 5 s", w)
			return
		}
		time.Sleep(500 * time.Microsecond)
		if g.nfires() != 1 {
			c.Violate("C09/fired-more-than-once", fmt.Sprintf("%d callbacks after concurrent signals", g.nfires()), w)
			return
		}
		if !c09CheckFire(c, g.fires[0], 70+k, ids, false, w) {
			return
		}
	}
	c.Count("generations", int64(gens))
	c.Feature("concurrent-signals")
	c.Nontrivial()
	c.FP("concurrent", c.Seed)
	c.Sample(map[string]interface{}{"kind": "each participant signalled from its own goroutine(s)", "generations": gens})
}

func init() {
	h.Register(&h.Check{
		ID:        "C09",
		Level:     "exploration",
		Technique: "runtime monitoring of the real open-game manager: scripted and random set-up / signal schedules with a callback spy that records, for every firing, the reported state and how many participants had signalled; time is used only as a lower bound for the timeout path",
		Rule: "case kinds by index: all signal orders for 1..4 participants (plain, doubled, unknown id at every position, repeats after completion); random orders for 5..10; withheld signals with a 1 s timeout (24 gates in parallel per case); re-set-up at a prefix of pending signals and right after completion; gates rebuilt from a JSON-saved pending state (with and without timeout); concurrent signals from one goroutine per participant; " +
			"every case is non-trivial; distinct = kind + seed (the exhaustive kind counts once)",
		Assumptions: []string{"participant sets have at least one member", "timers cannot fire early: 'not before the timeout' is a lower bound of 1 s minus 5 ms; 'fires after the timeout' allows 9 s", "set-up and signals are never issued concurrently with each other (syncsaga panics on Ready during Stop; outside the statement)"},
		Cases:       func(tier string) int { return map[string]int{"quick": 96, "thorough": 1500}[tier] },
		MinNontrivial: func(tier string) int {
			return map[string]int{"quick": 60, "thorough": 1000}[tier]
		},
		RequiredFeatures: func(string) []string {
			return []string{"orders:exhaustive<=4", "orders:random-5..10", "timeout-path", "supersede-unfinished", "supersede-unfinished-with-timeout", "rebuild-from-saved-state", "rebuild:mixed-ready-state", "concurrent-signals", "re-set-up-right-after-completion", "same-set-up-announced-again", "rebuild:later-set-up-uses-configured-timeout", "rebuild:from-finished-gate", "repeats-then-next-set-up"}
		},
		CaseTimeout: 200e9,
		InProc:      3,
		Run: func(c *h.Ctx) {
			switch c.Case % 6 {
			case 0:
				if c.Case == 0 || c.Case%24 == 0 {
					c09Exhaustive(c)
				} else {
					c09Random(c)
				}
			case 1:
				if c.Case%12 == 1 {
					c09RepeatsThenSetup(c)
				} else {
					c09Random(c)
				}
			case 2:
				c09Timeout(c)
			case 3:
				c09Supersede(c)
			case 4:
				c09Rebuild(c)
			default:
				c09Concurrent(c)
			}
		},
	})
}
