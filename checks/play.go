// Package checks holds one runtime-monitoring check per property.
package checks

import (
	"fmt"
	"math/rand"
	"sort"
	"time"

	"github.com/weedbox/pokerface"
	"github.com/weedbox/pokerface/settlement"
	pt "github.com/weedbox/pokertable"

	h "verif/harness"
)

// OpRec is one membership / chip operation issued by the driver.
type OpRec struct {
	Kind      string `json:"kind"` // buyin, rebuy, addon, leave, join
	ID        string `json:"id"`
	Seat      int    `json:"seat,omitempty"`
	Chips     int64  `json:"chips,omitempty"`
	Err       string `json:"err,omitempty"`
	Phase     string `json:"phase"`                // between | mid | paused | start
	WasBusted bool   `json:"was_busted,omitempty"` // add-on given to a player without chips
	Hand      int    `json:"hand"`
}

// Churn selects which operations the driver mixes into play.
type Churn struct {
	BetweenP        float64
	MidP            float64
	Rebuy           bool
	AddOn           bool
	BuyIn           bool
	Leave           bool
	SitOut          bool    // sometimes reserve without joining
	SitOutOften     bool    // a third of the buy-ins hold their seat without sitting in, and sit in hands later
	OverlapOpen     float64 // probability per hand of a re-buy / add-on issued from another goroutine 0..3 ms after the last settlement signal, so that it overlaps the engine opening the hand
	MidTopup        bool
	MidJoin         bool
	MidLeaveOther   bool // non-participants leave mid-hand
	MidLeavePart    bool // a dealt-in player leaves mid-hand (recorded finding of C01/C02)
	RandomSeat      bool
	Batch           bool // batch leaves and UpdateTablePlayers calls
	TableLevelGuard bool // judge openability by the table's own data only (C08: a seat manager that disagrees is the defect)
	AddOnBusted     bool // add-ons to busted players between hands (the seat manager learns of them at the next continue)
	ResumePaused    bool
	MaxOpsPerPoint  int
}

type PlayOpts struct {
	Gen      h.GenOpts
	Hands    int
	Churn    Churn
	Decks    []string // "seeded","rank","split"
	Policies []string // names; empty = any
	MaxWait  time.Duration
	NoJitter bool
	OnSync   func(p *Play, t *pt.Table) // runs synchronously inside the engine's table-updated callback (engine goroutine)
}

// PlayMon are the oracle hooks of a check.
type PlayMon struct {
	OnEvent      func(p *Play, e *h.Ev)
	OnStart      func(p *Play)
	AfterHand    func(p *Play, hd *h.Hand) // Q-between: after settle and set-up/pause
	AfterOp      func(p *Play, op OpRec)   // Q-op
	BeforeAct    func(p *Play, e *h.Ev, gp int, pid string) bool
	OnRequest    func(p *Play, e *h.Ev, kind string, asked []string) []string
	BeforeSignal func(p *Play)                                              // after between-ops, before signalling the pending set-up
	AfterAct     func(p *Play, e *h.Ev, gp int, pid, act string, err error) // right after the driver's move returned
}

// Play is the state of one W-play execution.
type Play struct {
	C          *h.Ctx
	SS         *h.Session
	Cfg        h.TableCfg
	Opts       PlayOpts
	Mon        *PlayMon
	Exp        map[string]int64 // expected bankroll per seated player (chip ledger)
	In, Out    int64
	Ops        []OpRec
	HandNo     int
	CurHand    *h.Hand
	Tainted    string // set when a recorded finding was triggered: later events are not judged
	Stalled    bool
	StopNow    bool // set by a monitor to end the run at once (the current hand is abandoned)
	EndedShort bool
	PolicyName string
	DeckName   string
	HandTopups map[string]int64       // accepted top-ups while the current hand runs
	ovCollect  func(opened *pt.Table) // pending outcome of a top-up that overlaps the open (see Churn.OverlapOpen); opened = the opened snapshot, if seen
	midOps     int
}

func (p *Play) R() *rand.Rand { return p.C.R }

func (p *Play) record(op OpRec, err error) OpRec {
	if err != nil {
		op.Err = err.Error()
	}
	op.Hand = p.HandNo
	p.Ops = append(p.Ops, op)
	if p.Mon.AfterOp != nil {
		p.Mon.AfterOp(p, op)
	}
	return op
}

func (p *Play) tableNow() *pt.Table { return p.SS.S.TE.GetTable() }

// RefusedResponses lists the answers to readiness / ante / blind requests that the engine refused although the hand
// had asked that very player (the driver answers each request once per asked player, in the order asked).
func (p *Play) RefusedResponses() []h.ActRec {
	var out []h.ActRec
	for _, hd := range p.SS.Hands {
		for _, a := range hd.Acts {
			if a.Err != "" && (a.Round == "ready" || a.Round == "ante" || a.Round == "blinds") {
				out = append(out, a)
			}
		}
	}
	return out
}

func (p *Play) bankrollNow(id string) (int64, bool) {
	t := p.tableNow()
	if i := h.PlayerIdx(t, id); i >= 0 {
		return t.State.PlayerStates[i].Bankroll, true
	}
	return 0, false
}

// BuyIn seats a new player (fixed seat or -1) and joins (unless sitOut).
func (p *Play) BuyIn(phase string, seat int, chips int64, sitOut bool) OpRec {
	id := p.SS.NewPlayerID()
	err := p.SS.S.Reserve(id, seat, chips)
	if err == nil {
		p.Exp[id] = chips
		p.In += chips
	}
	op := p.record(OpRec{Kind: "buyin", ID: id, Seat: seat, Chips: chips, Phase: phase}, err)
	if err == nil && !sitOut {
		jerr := p.SS.S.Join(id)
		p.record(OpRec{Kind: "join", ID: id, Phase: phase}, jerr)
	}
	return op
}

// LazyBuyIn seats a new player who never calls PlayerJoin and waits (the table is kept still by the caller: nobody
// acts, nobody else is seated) until the engine's own auto-join timer (17 s after the last reservation) has seated
// him in. Returns the player id and whether the table shows him seated-in within 24 s.
func (p *Play) LazyBuyIn(phase string, seat int, chips int64) (string, bool) {
	op := p.BuyIn(phase, seat, chips, true)
	if op.Err != "" {
		return "", false
	}
	t0 := time.Now()
	for time.Since(t0) < 24*time.Second {
		time.Sleep(250 * time.Millisecond)
		t := p.tableNow()
		if i := h.PlayerIdx(t, op.ID); i >= 0 && t.State.PlayerStates[i].IsIn {
			p.record(OpRec{Kind: "auto-joined", ID: op.ID, Phase: phase}, nil)
			return op.ID, true
		}
	}
	return op.ID, false
}

func (p *Play) Rebuy(phase, id string, chips int64) OpRec {
	err := p.SS.S.Reserve(id, -1, chips)
	if err == nil {
		p.Exp[id] += chips
		p.In += chips
		if phase == "mid" {
			p.HandTopups[id] += chips
		}
	}
	return p.record(OpRec{Kind: "rebuy", ID: id, Chips: chips, Phase: phase}, err)
}

func (p *Play) AddOn(phase, id string, chips int64) OpRec {
	before, _ := p.bankrollNow(id)
	err := p.SS.S.Redeem(id, chips)
	if err == nil {
		p.Exp[id] += chips
		p.In += chips
		if phase == "mid" {
			p.HandTopups[id] += chips
		}
	}
	return p.record(OpRec{Kind: "addon", ID: id, Chips: chips, Phase: phase, WasBusted: before == 0}, err)
}

func (p *Play) Leave(phase, id string) OpRec {
	err := p.SS.S.Leave(id)
	if err == nil {
		p.Out += p.Exp[id]
		delete(p.Exp, id)
	}
	return p.record(OpRec{Kind: "leave", ID: id, Phase: phase}, err)
}

// LeaveMany removes several players with one PlayersLeave call.
func (p *Play) LeaveMany(phase string, ids []string) OpRec {
	err := p.SS.S.Leave(ids...)
	if err == nil {
		for _, id := range ids {
			p.Out += p.Exp[id]
			delete(p.Exp, id)
		}
	}
	return p.record(OpRec{Kind: "leave", ID: fmt.Sprint(ids), Phase: phase}, err)
}

// UpdateBatch issues one UpdateTablePlayers call (leaves first, then joins) and joins the newcomers.
func (p *Play) UpdateBatch(phase string, joins []pt.JoinPlayer, leaves []string) OpRec {
	_, err := p.SS.S.Update(joins, leaves)
	if err == nil {
		for _, id := range leaves {
			p.Out += p.Exp[id]
			delete(p.Exp, id)
		}
		for _, j := range joins {
			p.Exp[j.PlayerID] = j.RedeemChips
			p.In += j.RedeemChips
		}
	}
	op := p.record(OpRec{Kind: "update", ID: fmt.Sprintf("join=%v leave=%v", joins, leaves), Phase: phase}, err)
	if err == nil {
		for _, j := range joins {
			p.record(OpRec{Kind: "join", ID: j.PlayerID, Phase: phase}, p.SS.S.Join(j.PlayerID))
		}
	}
	return op
}

func (p *Play) chipsAmount() int64 {
	bb := p.Cfg.BB
	if bb < p.Cfg.Dealer {
		bb = p.Cfg.Dealer
	}
	if bb == 0 {
		bb = 10
	}
	switch p.R().Intn(4) {
	case 0:
		return 1 + p.R().Int63n(bb)
	case 1:
		return bb + p.R().Int63n(bb*5)
	}
	return bb*10 + p.R().Int63n(bb*100)
}

func (p *Play) seatedIDs() []string {
	t := p.tableNow()
	ids := []string{}
	for _, ps := range t.State.PlayerStates {
		ids = append(ids, ps.PlayerID)
	}
	return ids
}

func (p *Play) isParticipant(id string) bool {
	t := p.tableNow()
	return h.GameIdx(t, id) >= 0
}

// betweenOps applies a few random membership operations at a between-hands point.
func (p *Play) betweenOps(phase string) {
	ch := p.Opts.Churn
	r := p.R()
	max := ch.MaxOpsPerPoint
	if max == 0 {
		max = 3
	}
	for n := 0; n < max; n++ {
		if r.Float64() >= ch.BetweenP {
			break
		}
		t := p.tableNow()
		var busted, alive, all []string
		for _, ps := range t.State.PlayerStates {
			all = append(all, ps.PlayerID)
			if ps.Bankroll == 0 {
				busted = append(busted, ps.PlayerID)
			} else {
				alive = append(alive, ps.PlayerID)
			}
		}
		free := p.SS.FreeSeats()
		kinds := []string{}
		if ch.Rebuy && len(busted) > 0 {
			kinds = append(kinds, "rebuy", "rebuy")
		}
		var satOut []string
		for _, ps := range t.State.PlayerStates {
			if !ps.IsIn && ps.Bankroll > 0 {
				satOut = append(satOut, ps.PlayerID)
			}
		}
		if ch.SitOut && len(satOut) > 0 {
			kinds = append(kinds, "sitin")
			if ch.SitOutOften {
				kinds = append(kinds, "sitin")
			}
		}
		// add-ons go to players who still have chips: PlayerRedeemChips does not tell the seat manager that a
		// busted player has chips again (only a re-buy through PlayerReserve or the next continue does), and a
		// paused table that is resumed by hand would then refuse to rotate - outside every property statement
		if ch.AddOn && len(alive) > 0 {
			kinds = append(kinds, "addon")
		}
		if ch.AddOnBusted && len(busted) > 0 && phase == "between" {
			kinds = append(kinds, "addon-busted")
		}
		if ch.BuyIn && len(free) > 0 {
			kinds = append(kinds, "buyin", "buyin")
		}
		if ch.Leave && len(all) > 0 {
			kinds = append(kinds, "leave")
			if len(busted) > 0 {
				kinds = append(kinds, "leavebusted")
			}
		}
		if ch.Leave && ch.Batch && len(all) > 3 {
			kinds = append(kinds, "leavemany")
		}
		if ch.Batch && ch.BuyIn && (len(free) > 0 || len(all) > 2) {
			kinds = append(kinds, "update")
		}
		if len(kinds) == 0 {
			return
		}
		// pick players to leave in one batch such that two seated-in players with chips remain
		pickLeavers := func(max int) []string {
			var out []string
			liveSet := map[string]bool{}
			for _, lid := range p.smLive() {
				liveSet[lid] = true
			}
			rest := len(liveSet)
			start := r.Intn(len(all))
			for k := 0; k < len(all) && len(out) < max; k++ {
				ps := t.State.PlayerStates[(start+k)%len(all)] // adjacent in the player list
				live := liveSet[ps.PlayerID]
				if live && rest <= 2 {
					continue
				}
				if live {
					rest--
				}
				out = append(out, ps.PlayerID)
			}
			return out
		}
		switch kinds[r.Intn(len(kinds))] {
		case "leavemany":
			if ids := pickLeavers(2 + r.Intn(2)); len(ids) >= 2 {
				p.C.Feature("batch-leave")
				p.LeaveMany(phase, ids)
			}
		case "update":
			leaves := []string{}
			if len(all) > 2 && r.Intn(2) == 0 {
				leaves = pickLeavers(1 + r.Intn(2))
			}
			nj := 0
			if len(free)+len(leaves) > 0 {
				nj = 1 + r.Intn(len(free)+len(leaves))
				if nj > 3 {
					nj = 3
				}
			}
			joins := []pt.JoinPlayer{}
			fs := append([]int{}, free...)
			for _, id := range leaves {
				if i := h.PlayerIdx(t, id); i >= 0 {
					fs = append(fs, t.State.PlayerStates[i].Seat)
				}
			}
			r.Shuffle(len(fs), func(i, j int) { fs[i], fs[j] = fs[j], fs[i] })
			for k := 0; k < nj && k < len(fs); k++ {
				seat := fs[k]
				if ch.RandomSeat && r.Intn(3) == 0 {
					seat = -1
				}
				joins = append(joins, pt.JoinPlayer{PlayerID: p.SS.NewPlayerID(), RedeemChips: p.chipsAmount(), Seat: seat})
			}
			if len(leaves) > 0 && r.Intn(4) == 0 {
				// a batch that cannot fit: the first leaver is named twice (still one freed seat) and there is one
				// newcomer more than the free seats plus the leavers allow. It must be refused as a whole.
				leaves = append(leaves, leaves[0])
				joins = joins[:0]
				for k := 0; k < len(free)+len(leaves); k++ {
					joins = append(joins, pt.JoinPlayer{PlayerID: p.SS.NewPlayerID(), RedeemChips: p.chipsAmount(), Seat: -1})
				}
				p.C.Feature("batch-update-that-does-not-fit")
				if op := p.UpdateBatch(phase, joins, leaves); op.Err == "" {
					p.C.Violate("C03/invalid-operation-accepted/update", fmt.Sprintf("a batch update with %d newcomers for %d free seats and leavers %v was accepted", len(joins), len(free), leaves), p.witness())
				}
				break
			}
			if len(joins)+len(leaves) > 0 {
				p.C.Feature("batch-update")
				p.UpdateBatch(phase, joins, leaves)
			}
		case "rebuy":
			p.Rebuy(phase, busted[r.Intn(len(busted))], p.chipsAmount())
		case "sitin":
			// somebody who held a seat without sitting in (possibly for several hands) sits in now
			id := satOut[r.Intn(len(satOut))]
			p.C.Feature("late-sit-in-between-hands")
			p.record(OpRec{Kind: "join", ID: id, Phase: phase}, p.SS.S.Join(id))
		case "addon":
			p.AddOn(phase, alive[r.Intn(len(alive))], p.chipsAmount())
		case "addon-busted":
			p.C.Feature("addon-to-busted-player-between-hands")
			p.AddOn(phase, busted[r.Intn(len(busted))], p.chipsAmount())
		case "buyin":
			seat := free[r.Intn(len(free))]
			if ch.RandomSeat && r.Intn(3) == 0 {
				seat = -1
			}
			p.BuyIn(phase, seat, p.chipsAmount(), ch.SitOut && (r.Intn(5) == 0 || ch.SitOutOften && r.Intn(3) == 0))
		case "leave":
			// keep the table openable: never drop below two seated-in players with chips
			id := all[r.Intn(len(all))]
			rest := 0
			for _, lid := range p.smLive() {
				if lid != id {
					rest++
				}
			}
			if rest >= 2 {
				p.Leave(phase, id)
			}
		case "leavebusted":
			p.Leave(phase, busted[r.Intn(len(busted))])
		}
	}
}

// midOps applies at most one operation at a Q-turn.
func (p *Play) midOp() {
	ch := p.Opts.Churn
	r := p.R()
	if r.Float64() >= ch.MidP || p.midOps >= 3 {
		return
	}
	t := p.tableNow()
	var parts, others []string
	for _, ps := range t.State.PlayerStates {
		if h.GameIdx(t, ps.PlayerID) >= 0 {
			parts = append(parts, ps.PlayerID)
		} else {
			others = append(others, ps.PlayerID)
		}
	}
	free := p.SS.FreeSeats()
	kinds := []string{}
	if ch.MidTopup {
		kinds = append(kinds, "addon-part", "rebuy-part")
		if len(others) > 0 {
			kinds = append(kinds, "addon-other")
		}
	}
	if ch.MidJoin && len(free) > 0 {
		kinds = append(kinds, "buyin")
	}
	if ch.MidLeaveOther && len(others) > 0 {
		kinds = append(kinds, "leave-other")
	}
	if len(kinds) == 0 {
		return
	}
	p.midOps++
	switch kinds[r.Intn(len(kinds))] {
	case "addon-part":
		p.C.Feature("mid-hand-addon-participant")
		p.AddOn("mid", parts[r.Intn(len(parts))], p.chipsAmount())
	case "rebuy-part":
		p.C.Feature("mid-hand-rebuy-participant")
		p.Rebuy("mid", parts[r.Intn(len(parts))], p.chipsAmount())
	case "addon-other":
		p.C.Feature("mid-hand-addon-bystander")
		p.AddOn("mid", others[r.Intn(len(others))], p.chipsAmount())
	case "buyin":
		p.C.Feature("mid-hand-buyin")
		seat := free[r.Intn(len(free))]
		p.BuyIn("mid", seat, p.chipsAmount(), false)
	case "leave-other":
		p.C.Feature("mid-hand-leave-bystander")
		p.Leave("mid", others[r.Intn(len(others))])
	}
}

func policyByName(n string) h.Policy {
	switch n {
	case "callstation":
		return h.CallStation
	case "maniac":
		return h.Maniac
	case "nit":
		return h.Nit
	case "aggro":
		return h.Aggro
	}
	return h.RandomPolicy
}

func (p *Play) pickHandSetup() {
	r := p.R()
	names := p.Opts.Policies
	if len(names) == 0 {
		names = []string{"random", "random", "callstation", "maniac", "nit", "aggro"}
	}
	p.PolicyName = names[r.Intn(len(names))]
	decks := p.Opts.Decks
	if len(decks) == 0 {
		decks = []string{"seeded", "seeded", "seeded", "rank", "split"}
	}
	p.DeckName = decks[r.Intn(len(decks))]
	switch p.DeckName {
	case "rank":
		p.SS.Rig.DeckFn = func(o *pokerface.GameOptions, d []string) []string {
			if len(d) != 52 || o.HoleCardsCount != 2 {
				return h.SeededDeck(rand.New(rand.NewSource(r.Int63())))(o, d)
			}
			return h.RankDeck(r.Perm(len(o.Players)))(o, d)
		}
	case "split":
		p.SS.Rig.DeckFn = func(o *pokerface.GameOptions, d []string) []string {
			if len(d) != 52 || o.HoleCardsCount != 2 {
				return h.SeededDeck(rand.New(rand.NewSource(r.Int63())))(o, d)
			}
			return h.SplitDeck(rand.New(rand.NewSource(r.Int63())))(o, d)
		}
	default:
		p.SS.Rig.DeckFn = h.SeededDeck(rand.New(rand.NewSource(r.Int63())))
	}
}

// HandResult returns the pokerface result of the hand as the backend produced it.
func (p *Play) HandResult(hd *h.Hand) (*settlement.Result, *pokerface.GameState) {
	if hd.Settled == nil || hd.Settled.T == nil || hd.Settled.T.State.GameState == nil {
		return nil, nil
	}
	gid := hd.Settled.T.State.GameState.GameID
	calls := p.SS.Rig.Snapshot()
	for i := len(calls) - 1; i >= 0; i-- {
		c := calls[i]
		if c.Out != nil && c.Out.GameID == gid && c.Out.Status.CurrentEvent == "GameClosed" && c.Out.Result != nil {
			return c.Out.Result, c.Out
		}
	}
	return hd.Settled.T.State.GameState.Result, hd.Settled.T.State.GameState
}

// CreateCall returns the CreateGame record of the hand.
func (p *Play) CreateCall(hd *h.Hand) *h.BCall {
	if hd.FirstPlay == nil || hd.FirstPlay.T == nil || hd.FirstPlay.T.State.GameState == nil {
		return nil
	}
	gid := hd.FirstPlay.T.State.GameState.GameID
	for _, c := range p.SS.Rig.Snapshot() {
		if c.Kind == "CreateGame" && c.Out != nil && c.Out.GameID == gid {
			return c
		}
	}
	return nil
}

func sortedKeys(m map[string]int64) []string {
	k := make([]string, 0, len(m))
	for s := range m {
		k = append(k, s)
	}
	sort.Strings(k)
	return k
}

// smLive lists the players the seat manager considers seated-in with chips (its has-chips flag lags behind an
// add-on given to a busted player until the next continue).
func (p *Play) smLive() []string {
	st := p.SS.S.SM()
	var ids []string
	if st == nil || p.Opts.Churn.TableLevelGuard {
		return inAndChips(p.tableNow())
	}
	t := p.tableNow()
	for _, ps := range t.State.PlayerStates { // table order, for determinism
		for _, sp := range st.SeatData {
			if sp != nil && sp.ID == ps.PlayerID && sp.IsIn && sp.HasChips && ps.IsIn && ps.Bankroll > 0 {
				ids = append(ids, sp.ID)
			}
		}
	}
	return ids
}

// inAndChips lists seated-in players with chips on the engine's table.
func inAndChips(t *pt.Table) []string {
	var ids []string
	for _, ps := range t.State.PlayerStates {
		if ps.IsIn && ps.Bankroll > 0 {
			ids = append(ids, ps.PlayerID)
		}
	}
	return ids
}

// RunPlay executes one multi-hand table. It returns nil if the session could not start.
func RunPlay(c *h.Ctx, po PlayOpts, mon *PlayMon) *Play {
	cfg := h.GenTable(c.R, po.Gen)
	return RunPlayCfg(c, cfg, po, mon)
}

func RunPlayCfg(c *h.Ctx, cfg h.TableCfg, po PlayOpts, mon *PlayMon) *Play {
	p := &Play{C: c, Cfg: cfg, Opts: po, Mon: mon, Exp: map[string]int64{}, HandTopups: map[string]int64{}}
	onEv := func(e *h.Ev) {
		if f := p.ovCollect; f != nil && e.Kind == h.EvTable && e.T != nil && e.T.State.Status == pt.TableStateStatus_TableGameOpened {
			p.ovCollect = nil
			f(e.T)
		}
		if mon.OnEvent != nil {
			mon.OnEvent(p, e)
		}
	}
	for _, pl := range cfg.Players {
		p.Exp[pl.ID] = pl.Chips
		p.In += pl.Chips
	}
	// every fourth case runs with a slow, jittery consumer on the engine's callback goroutines
	var jit float64
	var jmax time.Duration
	if c.Case%4 == 1 && !po.NoJitter {
		jit, jmax = 0.15, 400*time.Microsecond
		c.Feature("callback-jitter")
	}
	ss, err := h.StartSessionWith(cfg, c.R, onEv, func(sc *h.SimConfig) {
		sc.Jitter, sc.JitterMax = jit, jmax
		if po.OnSync != nil {
			sc.OnSyncAfter = func(t *pt.Table) { po.OnSync(p, t) }
		}
	})
	p.SS = ss
	if err != nil {
		c.Inconclusive(fmt.Sprintf("session did not start: %v cfg=%+v", err, cfg))
		return nil
	}
	if mon.OnStart != nil {
		mon.OnStart(p)
	}
	wait := po.MaxWait
	if wait == 0 {
		wait = 12 * time.Second
	}
	for p.HandNo = 1; p.HandNo <= po.Hands; p.HandNo++ {
		p.pickHandSetup()
		p.midOps = 0
		p.HandTopups = map[string]int64{}
		sc := &h.Script{Policy: policyByName(p.PolicyName), MaxWait: wait, OnEvent: onEv}
		sc.Stop = func() bool { return p.StopNow }
		sc.BeforeAct = func(e *h.Ev, gp int, pid string) bool {
			p.midOp()
			if mon.BeforeAct != nil {
				return mon.BeforeAct(p, e, gp, pid)
			}
			return true
		}
		if mon.AfterAct != nil {
			sc.AfterAct = func(e *h.Ev, gp int, pid, act string, err error) { mon.AfterAct(p, e, gp, pid, act, err) }
		}
		if mon.OnRequest != nil {
			sc.OnRequest = func(e *h.Ev, kind string, asked []string) []string { return mon.OnRequest(p, e, kind, asked) }
		}
		if mon.BeforeSignal != nil {
			mon.BeforeSignal(p)
		}
		// a hand can only open with two seated-in players with chips: let sitting-out players join, else stop here
		if len(p.smLive()) < 2 {
			for _, ps := range p.tableNow().State.PlayerStates {
				if !ps.IsIn && ps.Bankroll > 0 {
					p.record(OpRec{Kind: "join", ID: ps.PlayerID, Phase: "between"}, ss.S.Join(ps.PlayerID))
				}
			}
			if len(p.smLive()) < 2 {
				p.EndedShort = true
				return p
			}
		}
		// the engine's own set-up named fewer than two players (the others were not seated-in with chips at
		// that moment): its gate will decline to open. Like the competition layer, set the hand up again.
		if ss.Pending != nil && len(ss.Pending.Participants) < 2 {
			t := p.tableNow()
			parts := map[string]int{}
			for i, id := range p.smLive() {
				parts[id] = i
			}
			ss.SignalPending(nil) // let the declined gate fire
			ss.S.WaitFor(3*time.Second, func(e *h.Ev) bool { return e.Kind == h.EvGateRet }, onEv)
			ss.S.TE.SetUpTableGame(t.State.GameCount+1, parts)
			e, ok := ss.S.WaitFor(5*time.Second, func(e *h.Ev) bool { return e.Kind == h.EvSetup }, onEv)
			if !ok {
				c.Inconclusive("no set-up event after explicit SetUpTableGame")
				return p
			}
			ss.Pending = e.Setup
			c.Feature("re-set-up-after-short-setup")
		}
		// a top-up issued from another goroutine 0..2 ms after the last settlement signal, so that it overlaps the
		// engine opening the hand. The driver collects its outcome when it sees the opened snapshot (the hand cannot
		// move on before the driver answers its first request), so the ledger is ahead of every later operation.
		if po.Churn.OverlapOpen > 0 && p.R().Float64() < po.Churn.OverlapOpen {
			if ids := inAndChips(p.tableNow()); len(ids) > 0 {
				ovID, ovChips, ovKind := ids[p.R().Intn(len(ids))], p.chipsAmount(), []string{"rebuy", "addon"}[p.R().Intn(2)]
				delay := time.Duration(p.R().Intn(2000)) * time.Microsecond
				ovCh := make(chan error, 1)
				go func() {
					time.Sleep(delay)
					if ovKind == "rebuy" {
						ovCh <- ss.S.Reserve(ovID, -1, ovChips)
					} else {
						ovCh <- ss.S.Redeem(ovID, ovChips)
					}
				}()
				p.ovCollect = func(opened *pt.Table) {
					select {
					case err := <-ovCh:
						if err == nil {
							// did it land before the open (the opened snapshot already shows it) or after (a top-up while
							// the hand runs)?
							before := false
							if opened != nil {
								if i := h.PlayerIdx(opened, ovID); i >= 0 && opened.State.PlayerStates[i].Bankroll == p.Exp[ovID]+ovChips {
									before = true
								}
							}
							p.Exp[ovID] += ovChips
							p.In += ovChips
							if !before {
								p.HandTopups[ovID] += ovChips
							}
							c.Feature("top-up-overlapping-the-open")
						}
						p.record(OpRec{Kind: ovKind, ID: ovID, Chips: ovChips, Phase: "mid"}, err)
					case <-time.After(45 * time.Second):
						c.Inconclusive(fmt.Sprintf("foreign: %s(%s) issued while the hand was being opened has not returned after 45 s", ovKind, ovID))
						p.StopNow = true
					}
				}
			}
		}
		hd := ss.NextHand(sc)
		p.CurHand = hd
		if f := p.ovCollect; f != nil {
			p.ovCollect = nil
			f(nil)
		}
		if p.StopNow && hd.Settled == nil {
			return p
		}
		if hd.Timeout || hd.Settled == nil {
			p.Stalled = true
			return p
		}
		// ledger: apply the hand's result to the expected bankrolls
		if res, _ := p.HandResult(hd); res != nil && p.Tainted == "" {
			roster := hd.Roster()
			for _, pr := range res.Players {
				if pr.Idx >= 0 && pr.Idx < len(roster) {
					if _, ok := p.Exp[roster[pr.Idx]]; ok {
						p.Exp[roster[pr.Idx]] += pr.Changed
					}
				}
			}
		}
		if mon.AfterHand != nil {
			mon.AfterHand(p, hd)
		}
		if c.Failed() || p.Tainted != "" || p.StopNow {
			return p
		}
		if hd.AutoEnd || hd.Closed {
			return p
		}
		if hd.Paused != nil {
			if !po.Churn.ResumePaused {
				return p
			}
			p.betweenOps("paused")
			// resume like the competition layer does: set the next hand up explicitly
			t := p.tableNow()
			ids := p.smLive()
			if len(ids) < 2 || h.AliveCount(t) < t.Meta.TableMinPlayerCount {
				return p
			}
			parts := map[string]int{}
			for i, id := range ids {
				parts[id] = i
			}
			ss.S.TE.SetUpTableGame(t.State.GameCount+1, parts)
			e, ok := ss.S.WaitFor(5*time.Second, func(e *h.Ev) bool { return e.Kind == h.EvSetup }, onEv)
			if !ok {
				c.Inconclusive("no set-up event after explicit SetUpTableGame")
				return p
			}
			ss.Pending = e.Setup
			c.Feature("resumed-after-pause")
			continue
		}
		p.betweenOps("between")
	}
	return p
}

func newRand(seed int64) *rand.Rand { return rand.New(rand.NewSource(seed)) }

// setBreak announces a break level. Half of the announcements carry all-zero amounts, the other half keep the amounts of
// the level in force (a competition layer may send either); round 7: an engine that compares only the amounts drops the
// second kind.
func setBreak(te pt.TableEngine, r *rand.Rand) {
	if bs := te.GetTable().State.BlindState; bs != nil && r.Intn(2) == 0 {
		te.UpdateBlind(-1, bs.Ante, bs.Dealer, bs.SB, bs.BB)
		return
	}
	te.UpdateBlind(-1, 0, 0, 0, 0)
}
