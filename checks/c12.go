package checks

import (
	"fmt"
	"time"

	"github.com/weedbox/pokerface"
	pt "github.com/weedbox/pokertable"

	h "verif/harness"
)

// C12 — a hand is played at the blinds in force when it opened.

type blindLvl struct {
	Level                int
	Ante, Dealer, SB, BB int64
}

func (b blindLvl) String() string {
	return fmt.Sprintf("L%d ante=%d dealer=%d sb=%d bb=%d", b.Level, b.Ante, b.Dealer, b.SB, b.BB)
}

func lvlOfState(b *pt.TableBlindState) blindLvl {
	if b == nil {
		return blindLvl{Level: -999}
	}
	return blindLvl{b.Level, b.Ante, b.Dealer, b.SB, b.BB}
}
func sameMoney(a blindLvl, ante int64, bl pokerface.BlindSetting) bool {
	return a.Ante == ante && a.Dealer == bl.Dealer && a.SB == bl.SB && a.BB == bl.BB
}

func c12Run(c *h.Ctx) {
	if c.Case%10 == 9 {
		c12CreatedOnBreak(c)
		return
	}
	if c.Case%20 == 8 {
		c12BreakInContinueInterval(c)
		return
	}
	if c.Case%40 == 13 {
		c12BreakDuringOpenRetry(c)
		return
	}
	if c.Case%40 == 27 {
		c12ViaManager(c)
		return
	}
	r := c.R
	var cur blindLvl
	var atSignal blindLvl
	sameNumber, sameAmounts := 0, 0
	nextLevel := func() blindLvl {
		bb := int64(2 + r.Intn(60))
		l := blindLvl{Level: cur.Level + 1, SB: bb / 2, BB: bb}
		if l.Level <= 0 {
			l.Level = 1
		}
		if cur.Level > 0 && r.Intn(4) == 0 {
			// a corrected level: same number, other amounts (round 7)
			l.Level = cur.Level
			l.BB = cur.BB + int64(1+r.Intn(20))
			l.SB = l.BB / 2
			sameNumber++
		}
		if r.Intn(3) == 0 {
			l.Ante = 1 + bb/8
		}
		if r.Intn(5) == 0 {
			l.Dealer = bb
		}
		if cur.Level > 0 && l.Level != cur.Level && r.Intn(6) == 0 {
			// the next level number with the amounts of the level in force (round 8: an update is not a no-op because
			// its amounts are unchanged)
			l = blindLvl{Level: cur.Level + 1, Ante: cur.Ante, Dealer: cur.Dealer, SB: cur.SB, BB: cur.BB}
			sameAmounts++
		}
		return l
	}
	updates, midUpdates := 0, 0
	_ = sameNumber
	breakPending := false
	setLevel := func(p *Play, l blindLvl, where string) {
		p.SS.S.TE.UpdateBlind(l.Level, l.Ante, l.Dealer, l.SB, l.BB)
		cur = l
		updates++
		c.Feature("update:" + where)
	}
	mon := &PlayMon{}
	mon.OnStart = func(p *Play) {
		cur = blindLvl{p.Cfg.Level, p.Cfg.Ante, p.Cfg.Dealer, p.Cfg.SB, p.Cfg.BB}
		atSignal = cur
	}
	// an update issued from a second goroutine 0..2 ms after the last settlement signal overlaps the engine opening
	// the hand: that hand is played at the old or at the new level (as a whole), every later hand at the new one
	// (round 7: the second goroutine may be a level clock that fires several times in a row across the open - the hand
	// is then played, as a whole, at the level in force before or at exactly one of the announced levels)
	var alts []blindLvl
	var altDone chan struct{}
	lastSettled := time.Now()
	mon.BeforeSignal = func(p *Play) {
		if breakPending {
			return
		}
		// the gate opens the hand by itself 2 s after the set-up: on a slow machine the between-hands operations may
		// have taken that long, and then "the level when the driver lets the hand open" is not the level at open.
		// Late, or already open: no update here, the hand is played at the level in force now (or a moment ago).
		if t := p.tableNow(); time.Since(lastSettled) > 1200*time.Millisecond || t.State.GameCount >= p.HandNo {
			atSignal = cur
			c.Feature("no-update-before-a-late-signal")
			return
		}
		if r.Intn(3) == 0 {
			setLevel(p, nextLevel(), "between-hands")
		}
		atSignal = cur
		if r.Intn(4) == 0 {
			n := 1
			if r.Intn(2) == 0 {
				n = 2 + r.Intn(5)
			}
			alts, altDone = nil, make(chan struct{})
			gaps := make([]time.Duration, n)
			for i := 0; i < n; i++ {
				l := nextLevel()
				alts = append(alts, l)
				cur = l
				updates++
				if i == 0 {
					gaps[i] = time.Duration(r.Intn(2000)) * time.Microsecond
				} else {
					gaps[i] = time.Duration(r.Intn(500)) * time.Microsecond
				}
			}
			te := p.SS.S.TE
			go func(ls []blindLvl, done chan struct{}) {
				for i, l := range ls {
					time.Sleep(gaps[i])
					te.UpdateBlind(l.Level, l.Ante, l.Dealer, l.SB, l.BB)
				}
				close(done)
			}(append([]blindLvl(nil), alts...), altDone)
			c.Feature("update:overlapping-the-open")
			if n > 1 {
				c.Feature("update:level-clock-fires-several-times-across-the-open")
			}
		}
	}
	mon.BeforeAct = func(p *Play, e *h.Ev, gp int, pid string) bool {
		if midUpdates < 2 && r.Intn(6) == 0 {
			midUpdates++
			if r.Intn(5) == 0 && !breakPending {
				breakPending = true
				l := cur
				l.Level = -1
				setLevel(p, l, "break-mid-hand")
			} else if !breakPending {
				setLevel(p, nextLevel(), "mid-hand")
			}
		}
		return true
	}
	mon.OnEvent = func(p *Play, e *h.Ev) {
		if e.Kind != h.EvTable || e.T == nil || c.Failed() {
			return
		}
		st := e.T.State
		// the live blind state always shows the latest update
		if got := lvlOfState(st.BlindState); got != cur && st.Status != pt.TableStateStatus_TableGameOpened {
			// an update issued after this snapshot was taken can already be ahead; only a stale or mixed value is wrong
			_ = got
		}
		if st.GameState == nil || (st.Status != pt.TableStateStatus_TableGamePlaying && st.Status != pt.TableStateStatus_TableGameSettled) {
			return
		}
		w := func() interface{} {
			m := p.witness().(map[string]interface{})
			m["snapshot"] = e.Brief()
			m["level_at_open"] = atSignal.String()
			m["level_now"] = cur.String()
			return m
		}
		if alts != nil {
			<-altDone
			// (two levels may charge the same amounts: the published level number then tells which one the hand has)
			came := false
			pick := -1
			if st.GameBlindState != nil {
				pub := lvlOfState(st.GameBlindState)
				for i, a := range alts {
					if pub == a && sameMoney(a, st.GameState.Meta.Ante, st.GameState.Meta.Blind) {
						pick = i
					}
				}
			}
			if pick < 0 && !sameMoney(atSignal, st.GameState.Meta.Ante, st.GameState.Meta.Blind) {
				// no announced level is published together with its amounts: take the amounts' level for the report
				for i, a := range alts {
					if sameMoney(a, st.GameState.Meta.Ante, st.GameState.Meta.Blind) {
						pick = i
					}
				}
			}
			if pick >= 0 {
				atSignal = alts[pick] // this update came first
				came = true
				if pick < len(alts)-1 {
					c.Feature("hand-opened-between-two-ticks-of-the-level-clock")
				}
			}
			if came {
				c.Feature("overlapping-update-came-before-the-open")
			} else {
				c.Feature("overlapping-update-came-after-the-open")
			}
			alts = nil
		}
		if !sameMoney(atSignal, st.GameState.Meta.Ante, st.GameState.Meta.Blind) {
			sig := "C12/hand-not-played-at-level-in-force-at-open"
			if atSignal != cur {
				sig += "/level-changed-while-hand-ran"
			}
			c.Violate(sig, fmt.Sprintf("hand %d: hand engine uses ante=%d blind=%+v, level in force at open was %s", st.GameCount, st.GameState.Meta.Ante, st.GameState.Meta.Blind, atSignal), w())
			return
		}
		if st.GameBlindState == nil {
			c.Violate("C12/no-published-hand-level", fmt.Sprintf("hand %d: status %s without a published level for the hand", st.GameCount, st.Status), w())
			return
		}
		if got := lvlOfState(st.GameBlindState); got != atSignal {
			sig := "C12/published-hand-level-differs"
			if atSignal != cur {
				sig += "/level-changed-while-hand-ran"
			}
			c.Violate(sig, fmt.Sprintf("hand %d: published level for the hand %s, level in force at open %s (current level %s)", st.GameCount, got, atSignal, cur), w())
			return
		}
		c.Count("snapshots_checked", 1)
	}
	mon.AfterHand = func(p *Play, hd *h.Hand) {
		lastSettled = time.Now()
		if cc := p.CreateCall(hd); cc != nil && cc.Opts != nil {
			if !sameMoney(atSignal, cc.Opts.Ante, cc.Opts.Blind) {
				c.Violate("C12/hand-options-differ-from-level-at-open", fmt.Sprintf("hand %d created with ante=%d blind=%+v, level at open %s", p.HandNo, cc.Opts.Ante, cc.Opts.Blind, atSignal), p.witness())
				return
			}
		}
		if atSignal != cur {
			c.Feature("level-changed-while-hand-ran")
			c.Nontrivial()
		}
		if breakPending {
			if hd.Paused == nil {
				c.Violate("C12/no-pause-after-break-set-mid-hand", fmt.Sprintf("hand %d: the level became a break while the hand ran but the table did not pause after it", p.HandNo), p.witness())
				return
			}
			c.Feature("paused-after-break-mid-hand")
			c.Nontrivial()
			// the break ends: a new level, then the driver resumes the table
			breakPending = false
			setLevel(p, nextLevel(), "break-ends")
			atSignal = cur
		}
		midUpdates = 0
		c.Count("hands", 1)
	}
	po := PlayOpts{
		Hands: 6 + r.Intn(8),
		Churn: Churn{BetweenP: 0.2, Rebuy: true, BuyIn: true, ResumePaused: true},
		Gen:   h.GenOpts{MinPlayers: 2, DeepOnly: r.Intn(2) == 0},
	}
	p := RunPlay(c, po, mon)
	if p == nil {
		return
	}
	c.FP(fmt.Sprintf("%+v", p.Cfg), updates, len(p.SS.Hands), c.Seed)
	if p.Stalled && !c.Failed() {
		c.InconclusiveW(fmt.Sprintf("foreign: hand %d did not settle within the watchdog", p.HandNo), p.witness())
		return
	}
	c.Count("blind_updates", int64(updates))
	if sameNumber > 0 {
		c.Feature("update:same-level-number-other-amounts")
	}
	if sameAmounts > 0 {
		c.Feature("update:next-level-number-same-amounts")
	}
	c.Sample(map[string]interface{}{"cfg": p.Cfg, "hands": len(p.SS.Hands), "blind_updates": updates, "last_level": cur.String()})
}

// c12ViaManager: blind updates that arrive through the Manager (the usual entry point of a competition layer) put
// exactly the announced level in force.
func c12ViaManager(c *h.Ctx) {
	r := c.R
	m := pt.NewManager()
	cfg := h.GenTable(r, h.GenOpts{MinSeats: 3, MinPlayers: 3, DeepOnly: true, Modes: []string{"ct", "cash"}})
	opts := pt.NewTableEngineOptions()
	opts.GameContinueInterval = 0
	st := cfg.Setting(true)
	st.TableID = "M"
	if _, err := m.CreateTable(opts, nil, st); err != nil {
		c.Inconclusive(err.Error())
		return
	}
	eng, err := m.GetTableEngine("M")
	if err != nil {
		c.Inconclusive(err.Error())
		return
	}
	for k := 0; k < 12; k++ {
		v := r.Perm(90)
		l := blindLvl{Level: 1 + r.Intn(9), Ante: int64(1 + v[0]), Dealer: int64(1 + v[1]), SB: int64(1 + v[2]), BB: int64(1 + v[3])}
		if err := m.UpdateBlind("M", l.Level, l.Ante, l.Dealer, l.SB, l.BB); err != nil {
			c.Violate("C12/blind-update-refused", err.Error(), nil)
			return
		}
		if got := lvlOfState(eng.GetTable().State.BlindState); got != l {
			c.Violate("C12/level-in-force-differs-from-the-update", fmt.Sprintf("Manager.UpdateBlind announced %s, the table's level in force is %s", l, got), map[string]interface{}{"cfg": cfg})
			return
		}
		c.Count("manager_updates_checked", 1)
	}
	c.Feature("update:through-the-manager")
	c.Nontrivial()
	c.FP("via-manager", c.Seed)
	c.Sample(map[string]interface{}{"kind": "blind updates through the Manager, all-distinct amounts"})
}

// c12CreatedOnBreak: a table created on a break level starts paused and opens nothing.
func c12CreatedOnBreak(c *h.Ctx) {
	cfg := h.GenTable(c.R, h.GenOpts{MinSeats: 3, MinPlayers: 3, DeepOnly: true, Modes: []string{"ct", "cash", "mtt"}})
	cfg.Level = -1
	s, err := h.NewSim(h.SimConfig{Setting: cfg.Setting(cfg.Mode == "mtt"), Interval: 0}, c.R.Int63())
	if err != nil {
		c.Inconclusive(err.Error())
		return
	}
	w := func() interface{} { return map[string]interface{}{"cfg": cfg, "trace": s.TraceTail(30)} }
	if st := s.TE.GetTable().State.Status; st != pt.TableStateStatus_TablePausing {
		c.Violate("C12/created-on-break-not-paused", fmt.Sprintf("table created on a break level has status %s", st), w())
		return
	}
	for _, pl := range cfg.Players {
		if cfg.Mode == "mtt" {
			s.Join(pl.ID)
		} else {
			s.Seat(pl.ID, pl.Seat, pl.Chips)
		}
	}
	if st := s.TE.GetTable().State.Status; st != pt.TableStateStatus_TablePausing {
		c.Violate("C12/created-on-break-not-paused", fmt.Sprintf("after seating players the table created on a break has status %s", st), w())
		return
	}
	s.TE.StartTableGame()
	opened := false
	if e, ok := s.WaitFor(3*time.Second, func(e *h.Ev) bool { return e.Kind == h.EvSetup }, nil); ok {
		s.SignalAll(h.SetupIDs(e.Setup))
		s.WaitFor(4*time.Second, func(e *h.Ev) bool {
			if e.Kind == h.EvTable && e.T != nil && e.T.State.Status == pt.TableStateStatus_TableGameOpened {
				opened = true
			}
			return opened || e.Kind == h.EvGateRet
		}, nil)
	}
	if opened || s.TE.GetTable().State.GameCount > 0 {
		c.Violate("C12/hand-opened-on-break", "a table created on a break level opened a hand", w())
		return
	}
	c.Feature("created-on-break")
	c.Nontrivial()
	c.FP("created-on-break", fmt.Sprintf("%+v", cfg))
	c.Sample(map[string]interface{}{"kind": "created on break", "cfg": cfg})
}

// c12BreakInContinueInterval: the level becomes a break (or a break ends) while the 1 s continue interval runs.
func c12BreakInContinueInterval(c *h.Ctx) {
	r := c.R
	cfg := h.GenTable(r, h.GenOpts{MinSeats: 3, MinPlayers: 3, DeepOnly: true, Interval: 1, Modes: []string{"ct", "cash", "mtt"}})
	ss, err := h.StartSession(cfg, r, nil)
	if err != nil {
		c.Inconclusive("start: " + err.Error())
		return
	}
	s := ss.S
	endBreak := r.Intn(3) == 0
	hd := ss.NextHand(&h.Script{Policy: h.CallStation, StopAfterSettle: true, MaxWait: 15 * time.Second, BeforeAct: func(e *h.Ev, gp int, pid string) bool {
		if endBreak && s.TE.GetTable().State.BlindState.Level != -1 {
			s.TE.UpdateBlind(-1, cfg.Ante, cfg.Dealer, cfg.SB, cfg.BB) // break while the hand runs ...
		}
		return true
	}})
	if hd.Settled == nil {
		c.Inconclusive("foreign: hand did not settle")
		return
	}
	want := "pause"
	if endBreak {
		s.TE.UpdateBlind(2, cfg.Ante, cfg.Dealer, cfg.SB, cfg.BB) // ... and it ends during the continue interval
		want = "set-up"
		c.Feature("break-ends-in-continue-interval")
	} else {
		s.TE.UpdateBlind(-1, 0, 0, 0, 0)
		c.Feature("break-set-in-continue-interval")
	}
	// fewer players with chips than the table minimum pauses the table whatever the level
	alive := 0
	for _, ps := range hd.Settled.T.State.PlayerStates {
		if ps.Bankroll > 0 {
			alive++
		}
	}
	if alive < hd.Settled.T.Meta.TableMinPlayerCount {
		want = "pause"
	}
	got := ""
	s.WaitFor(5*time.Second, func(e *h.Ev) bool {
		if e.Kind == h.EvSetup {
			got = "set-up"
		}
		if e.Kind == h.EvTable && e.T != nil && e.T.State.Status == pt.TableStateStatus_TablePausing {
			got = "pause"
		}
		return got != ""
	}, nil)
	if got != want {
		c.Violate("C12/continue-decision-ignores-level-in-force/"+want+"-expected", fmt.Sprintf("level in force when the continue interval elapsed demands %s, the table chose %q", want, got), map[string]interface{}{"cfg": cfg, "trace": s.TraceTail(30)})
		return
	}
	c.Nontrivial()
	c.FP("break-in-interval", endBreak, fmt.Sprintf("%+v", cfg))
	c.Sample(map[string]interface{}{"kind": "break set / ended inside the continue interval", "ended": endBreak, "decision": got})
}

// c12BreakDuringOpenRetry: the first attempt to open fails (nobody has sat down yet), the engine waits 3 s to retry;
// meanwhile the level becomes a break and the players sit down. The retry must not open a hand on the break.
func c12BreakDuringOpenRetry(c *h.Ctx) {
	cfg := h.GenTable(c.R, h.GenOpts{MinSeats: 3, MinPlayers: 3, DeepOnly: true, Modes: []string{"ct", "cash"}})
	s, err := h.NewSim(h.SimConfig{Setting: cfg.Setting(false), Interval: 0}, c.R.Int63())
	if err != nil {
		c.Inconclusive(err.Error())
		return
	}
	for _, pl := range cfg.Players {
		s.Reserve(pl.ID, pl.Seat, pl.Chips) // reserved, not seated-in
	}
	s.TE.StartTableGame()
	if _, ok := s.WaitFor(3*time.Second, func(e *h.Ev) bool { return e.Kind == h.EvSetup }, nil); !ok {
		c.Inconclusive("no set-up")
		return
	}
	// nobody can signal (not seated-in): the gate fires by its 2 s timeout, the open fails and the engine sleeps 3 s
	if _, ok := s.WaitFor(4*time.Second, func(e *h.Ev) bool { return e.Kind == h.EvGateFire }, nil); !ok {
		c.Inconclusive("gate did not fire")
		return
	}
	time.Sleep(700 * time.Millisecond)
	s.TE.UpdateBlind(-1, 0, 0, 0, 0)
	for _, pl := range cfg.Players {
		s.TE.PlayerJoin(pl.ID)
		time.Sleep(500 * time.Microsecond)
	}
	opened := false
	s.WaitFor(8*time.Second, func(e *h.Ev) bool {
		if e.Kind == h.EvTable && e.T != nil && (e.T.State.Status == pt.TableStateStatus_TableGameOpened || e.T.State.GameCount > 0) {
			opened = true
		}
		return opened || e.Kind == h.EvGateRet
	}, nil)
	time.Sleep(5 * time.Millisecond)
	if opened || s.TE.GetTable().State.GameCount > 0 {
		c.Violate("C12/hand-opened-on-break/during-open-retry", "the blind level became a break while the engine was waiting to retry a failed open; the retry opened a hand on the break", map[string]interface{}{"cfg": cfg, "trace": s.TraceTail(30)})
		return
	}
	c.Feature("break-during-open-retry")
	c.Nontrivial()
	c.FP("break-during-retry", fmt.Sprintf("%+v", cfg))
	c.Sample(map[string]interface{}{"kind": "break set while the engine waits to retry a failed open", "cfg": cfg})
}

func init() {
	h.Register(&h.Check{
		ID:        "C12",
		Level:     "exploration",
		Technique: "runtime monitoring: the driver is the only source of blind updates and knows the level in force when it lets a hand open; every playing/settled snapshot and the hand-engine options are compared with it",
		Rule: "case = one generated table playing 6..13 hands while the driver changes the blind level between hands (before the signals) and during hands (at a player's turn), sets a break mid-hand and ends it again; every tenth case creates the table on a break; " +
			"non-trivial = the table had a hand during which the level changed, a pause after a mid-hand break, or the created-on-break scenario; distinct = fingerprint of config + update count + seed",
		Assumptions: []string{
			"updates are issued at quiescent points (no concurrent level clock): UpdateBlind writes five fields without a lock and startGame reads them twice, so a tight concurrent updater would manufacture torn levels that the statement does not address",
			"what pokerface charges follows its Meta (ante / blind) values",
		},
		Cases:         func(tier string) int { return map[string]int{"quick": 1200, "thorough": 20000}[tier] },
		MinNontrivial: func(tier string) int { return map[string]int{"quick": 600, "thorough": 10000}[tier] },
		RequiredFeatures: func(string) []string {
			return []string{"update:between-hands", "update:mid-hand", "update:break-mid-hand", "paused-after-break-mid-hand", "update:break-ends", "created-on-break", "level-changed-while-hand-ran", "break-set-in-continue-interval", "break-ends-in-continue-interval", "break-during-open-retry", "update:through-the-manager", "update:overlapping-the-open", "update:level-clock-fires-several-times-across-the-open", "update:same-level-number-other-amounts", "update:next-level-number-same-amounts"}
		},
		CaseTimeout: 200e9,
		InProc:      4,
		Run:         c12Run,
	})
}
