package checks

import (
	"bytes"
	"encoding/json"
	"fmt"
	"sort"
	"sync"
	"time"

	pt "github.com/weedbox/pokertable"

	h "verif/harness"
)

// C03 — seat bookkeeping stays exclusive, consistent and all-or-nothing.

type c03Model struct {
	seats  int
	seatOf map[string]int
	isIn   map[string]bool
}

func (m *c03Model) taken(seat int) bool {
	for _, s := range m.seatOf {
		if s == seat {
			return true
		}
	}
	return false
}

type c03Triple struct {
	table []byte
	sm    []byte
}

func c03Snap(s *h.Sim) c03Triple {
	return c03Triple{table: s.TableJSON(), sm: s.SMJSON()}
}

// c03Consistent checks that seat map, player list and seat manager describe the same partial bijection.
// c03Consistent compares the three views. The table and the seat manager are read one after the other; an engine
// goroutine that is seating somebody in at that very moment (auto seat-in callback: table flag first, seat manager
// second) can make one read older than the other, so a seated-in flag mismatch only counts if it persists.
func c03Consistent(s *h.Sim, m *c03Model) (string, string) {
	sig, det := c03ConsistentOnce(s, m)
	for try := 0; try < 4 && sig == "C03/seated-in-flag-differs"; try++ {
		time.Sleep(time.Millisecond)
		sig, det = c03ConsistentOnce(s, m)
	}
	return sig, det
}

func c03ConsistentOnce(s *h.Sim, m *c03Model) (string, string) {
	t := s.Table()
	st := s.SM()
	n := t.Meta.TableMaxSeatCount
	if len(t.State.SeatMap) != n {
		return "C03/seat-map-length", fmt.Sprintf("seat map has %d entries on a %d-seat table", len(t.State.SeatMap), n)
	}
	ids := map[string]bool{}
	seats := map[int]string{}
	for i, ps := range t.State.PlayerStates {
		if ids[ps.PlayerID] {
			return "C03/player-listed-twice", fmt.Sprintf("player %s appears twice in the player list", ps.PlayerID)
		}
		ids[ps.PlayerID] = true
		if ps.Seat < 0 || ps.Seat >= n {
			return "C03/seat-out-of-range", fmt.Sprintf("player %s has seat %d on a %d-seat table", ps.PlayerID, ps.Seat, n)
		}
		if o, dup := seats[ps.Seat]; dup {
			return "C03/seat-given-twice", fmt.Sprintf("seat %d holds %s and %s", ps.Seat, o, ps.PlayerID)
		}
		seats[ps.Seat] = ps.PlayerID
		if t.State.SeatMap[ps.Seat] != i {
			return "C03/seat-map-disagrees-with-player-list", fmt.Sprintf("player %s (index %d) sits at seat %d but the seat map says index %d", ps.PlayerID, i, ps.Seat, t.State.SeatMap[ps.Seat])
		}
	}
	for seat, pi := range t.State.SeatMap {
		if pi == -1 {
			continue
		}
		if pi < 0 || pi >= len(t.State.PlayerStates) || t.State.PlayerStates[pi].Seat != seat {
			return "C03/seat-map-disagrees-with-player-list", fmt.Sprintf("seat map: seat %d -> index %d, which is not a player sitting there", seat, pi)
		}
	}
	if st == nil {
		return "", ""
	}
	if len(st.SeatData) != n {
		return "C03/seat-manager-seat-count", fmt.Sprintf("seat manager has %d seats, table %d", len(st.SeatData), n)
	}
	for seat := 0; seat < n; seat++ {
		sp, ok := st.SeatData[seat]
		if !ok {
			return "C03/seat-manager-seat-missing", fmt.Sprintf("seat manager lost seat %d", seat)
		}
		id, occupied := seats[seat]
		if sp == nil {
			if occupied {
				return "C03/seat-manager-disagrees-with-table", fmt.Sprintf("seat %d: table says %s, seat manager says empty", seat, id)
			}
			continue
		}
		if !occupied || id != sp.ID {
			return "C03/seat-manager-disagrees-with-table", fmt.Sprintf("seat %d: seat manager says %s, table says %q", seat, sp.ID, id)
		}
		pi := h.PlayerIdx(t, id)
		if t.State.PlayerStates[pi].IsIn != sp.IsIn {
			return "C03/seated-in-flag-differs", fmt.Sprintf("player %s: table is_in=%v, seat manager is_in=%v", id, t.State.PlayerStates[pi].IsIn, sp.IsIn)
		}
	}
	for seat := range st.SeatData {
		if seat < 0 || seat >= n {
			return "C03/seat-manager-seat-out-of-range", fmt.Sprintf("seat manager has seat %d on a %d-seat table", seat, n)
		}
	}
	// agreement with the reference model
	if m != nil {
		if len(m.seatOf) != len(ids) {
			return "C03/membership-differs-from-reference", fmt.Sprintf("table has %d players %v, the reference %d %v", len(ids), keys(ids), len(m.seatOf), m.seatOf)
		}
		for id, seat := range m.seatOf {
			if !ids[id] {
				return "C03/membership-differs-from-reference", fmt.Sprintf("player %s should be seated (reference seat %d) but is not at the table", id, seat)
			}
			if seat >= 0 && seats[seat] != id {
				return "C03/membership-differs-from-reference", fmt.Sprintf("player %s should sit at seat %d, table has %q there", id, seat, seats[seat])
			}
		}
	}
	return "", ""
}

func keys(m map[string]bool) []string {
	k := []string{}
	for s := range m {
		k = append(k, s)
	}
	sort.Strings(k)
	return k
}

type c03Op struct {
	Kind   string          `json:"kind"`
	Joins  []pt.JoinPlayer `json:"joins,omitempty"`
	Leaves []string        `json:"leaves,omitempty"`
	ID     string          `json:"id,omitempty"`
	Expect string          `json:"expect"` // ok | error
	Got    string          `json:"got"`
}

// predictJoins: would this join batch be accepted on top of the model (after leaves were applied)?
func (m *c03Model) predictJoins(joins []pt.JoinPlayer) bool {
	if len(m.seatOf)+len(joins) > m.seats {
		return false
	}
	seenID := map[string]bool{}
	seenSeat := map[int]bool{}
	for _, j := range joins {
		if seenID[j.PlayerID] {
			return false
		}
		seenID[j.PlayerID] = true
		if _, ok := m.seatOf[j.PlayerID]; ok {
			return false
		}
		if j.Seat == -1 {
			continue
		}
		if j.Seat < 0 || j.Seat >= m.seats || m.taken(j.Seat) || seenSeat[j.Seat] {
			return false
		}
		seenSeat[j.Seat] = true
	}
	return true
}

func c03Run(c *h.Ctx) {
	r := c.R
	seats := 2 + r.Intn(9)
	cfg := h.TableCfg{Seats: seats, Mode: []string{"ct", "mtt", "cash"}[r.Intn(3)], Rule: []string{"default", "short_deck"}[r.Intn(2)], Level: 1, SB: 5, BB: 10, MinPlayers: 2, ActionTime: 10, MaxDuration: 1 << 30}
	if cfg.Mode == "mtt" {
		cfg.Level = 0 // blinds not set: the table never starts by itself while the sequence runs
	}
	status := []string{"created", "created", "standby", "paused"}[r.Intn(4)]
	nextID := 0
	// ids that contain each other (q1, q10) and, every fifth, an id that differs from the previous one only in letter
	// case (q4 / Q4) or by a trailing blank: different players for every look-up (round 7)
	newID := func() string {
		nextID++
		if nextID%5 == 0 {
			c.Feature("look-alike-ids")
			if nextID%10 == 0 {
				return fmt.Sprintf("q%d ", nextID-1)
			}
			return fmt.Sprintf("Q%d", nextID-1)
		}
		return fmt.Sprintf("q%d", nextID)
	}
	model := &c03Model{seats: seats, seatOf: map[string]int{}, isIn: map[string]bool{}}
	var ops []c03Op
	var s *h.Sim
	var p *Play
	witness := func() interface{} {
		w := map[string]interface{}{"cfg": cfg, "status": status, "ops": ops}
		if s != nil {
			w["table"] = json.RawMessage(s.TableJSON())
			w["seat_manager"] = json.RawMessage(s.SMJSON())
			w["trace"] = s.TraceTail(30)
		}
		return w
	}
	// create-with-players variants
	var initial []pt.JoinPlayer
	createValid := true
	if status == "created" && r.Intn(2) == 0 {
		k := r.Intn(seats + 1)
		perm := r.Perm(seats)
		for i := 0; i < k; i++ {
			seat := perm[i]
			if r.Intn(4) == 0 {
				seat = -1
			}
			initial = append(initial, pt.JoinPlayer{PlayerID: newID(), RedeemChips: 100, Seat: seat})
		}
		switch r.Intn(6) {
		case 0:
			if len(initial) > 0 { // duplicate id
				initial = append(initial, pt.JoinPlayer{PlayerID: initial[0].PlayerID, RedeemChips: 5, Seat: -1})
				createValid = false
				c.Feature("create-with-duplicate-id")
			}
		case 1:
			if len(initial) > 1 && initial[0].Seat >= 0 { // duplicate seat
				initial[1].Seat = initial[0].Seat
				createValid = false
				c.Feature("create-with-duplicate-seat")
			}
		}
	}
	if status == "standby" || status == "paused" {
		// reach the status through real play
		cfg.Level = 1
		cfg.Mode = []string{"ct", "cash", "mtt"}[r.Intn(3)]
		np := 2 + r.Intn(seats-1)
		perm := r.Perm(seats)
		for i := 0; i < np; i++ {
			cfg.Players = append(cfg.Players, h.PlayerCfg{ID: newID(), Seat: perm[i], Chips: 1000})
		}
		stop := false
		p = RunPlayCfg(c, cfg, PlayOpts{Hands: 1 + r.Intn(2), Policies: []string{"callstation"}, Decks: []string{"seeded"}}, &PlayMon{AfterHand: func(pp *Play, hd *h.Hand) { _ = stop }})
		if p == nil || p.Stalled {
			c.Inconclusive("could not reach the status through play")
			return
		}
		s = p.SS.S
		if status == "paused" {
			s.TE.PauseTable()
		}
		t := s.Table()
		for _, ps := range t.State.PlayerStates {
			model.seatOf[ps.PlayerID] = ps.Seat
			model.isIn[ps.PlayerID] = ps.IsIn
		}
		if string(t.State.Status) != "table_game_standby" && string(t.State.Status) != "table_pausing" {
			c.Inconclusive("unexpected status " + string(t.State.Status))
			return
		}
		c.Feature("status:" + string(t.State.Status))
	} else {
		st := cfg.Setting(false)
		st.JoinPlayers = initial
		var err error
		s, err = h.NewSim(h.SimConfig{Setting: st, Interval: 0}, r.Int63())
		if !createValid || len(initial) > seats {
			if err == nil {
				c.Violate("C03/invalid-create-accepted", fmt.Sprintf("CreateTable accepted an invalid player list %v", initial), witness())
			}
			c.Nontrivial()
			c.FP("create-invalid", fmt.Sprint(initial))
			c.Sample(map[string]interface{}{"create": initial, "result": fmt.Sprint(err)})
			return
		}
		if err != nil {
			c.Violate("C03/valid-create-refused", fmt.Sprintf("CreateTable refused %v: %v", initial, err), witness())
			return
		}
		t := s.Table()
		for _, ps := range t.State.PlayerStates {
			model.seatOf[ps.PlayerID] = ps.Seat
		}
		if len(t.State.PlayerStates) != len(initial) {
			c.Violate("C03/create-lost-players", fmt.Sprintf("created with %d players, table has %d", len(initial), len(t.State.PlayerStates)), witness())
			return
		}
		c.Feature("status:" + string(t.State.Status))
	}
	if sig, det := c03Consistent(s, model); sig != "" {
		c.Violate(sig, "after create/start: "+det, witness())
		return
	}
	nops := 10 + r.Intn(51)
	refused, reused := 0, 0
	vacated := map[int]bool{}
	for i := 0; i < nops && !c.Failed(); i++ {
		s.Drain(nil)
		before := c03Snap(s)
		var known []string
		for id := range model.seatOf {
			known = append(known, id)
		}
		sort.Strings(known)
		var free []int
		for seat := 0; seat < seats; seat++ {
			if !model.taken(seat) {
				free = append(free, seat)
			}
		}
		op := c03Op{}
		var err error
		pick := r.Intn(16)
		switch {
		case pick <= 2: // reserve a new player on a fixed seat: free, taken or out of range
			seat := r.Intn(seats)
			switch r.Intn(6) {
			case 0:
				seat = seats + r.Intn(3)
			case 1:
				seat = -2 - r.Intn(2)
			default:
				if len(free) > 0 && r.Intn(2) == 0 {
					seat = free[r.Intn(len(free))]
				}
			}
			j := pt.JoinPlayer{PlayerID: newID(), RedeemChips: 50, Seat: seat}
			op = c03Op{Kind: "reserve", Joins: []pt.JoinPlayer{j}}
			ok := model.predictJoins(op.Joins)
			err = s.Reserve(j.PlayerID, j.Seat, j.RedeemChips)
			op.Expect = map[bool]string{true: "ok", false: "error"}[ok]
			if err == nil && ok {
				model.seatOf[j.PlayerID] = seat
				if vacated[seat] {
					reused++
					c.Feature("vacated-seat-taken-again")
				}
			}
		case pick == 3: // random seat
			j := pt.JoinPlayer{PlayerID: newID(), RedeemChips: 50, Seat: -1}
			op = c03Op{Kind: "reserve-random", Joins: []pt.JoinPlayer{j}}
			ok := model.predictJoins(op.Joins)
			err = s.Reserve(j.PlayerID, -1, 50)
			op.Expect = map[bool]string{true: "ok", false: "error"}[ok]
			if err == nil && ok {
				model.seatOf[j.PlayerID] = -1 // seat read back below
			}
		case pick == 4 && len(known) > 0: // re-buy of a seated player (seat argument is ignored)
			id := known[r.Intn(len(known))]
			op = c03Op{Kind: "rebuy", ID: id, Expect: "ok"}
			err = s.Reserve(id, r.Intn(seats), 25)
		case pick == 5: // join known / unknown
			id := "nobody"
			op.Expect = "error"
			if len(known) > 0 && r.Intn(4) > 0 {
				id = known[r.Intn(len(known))]
				op.Expect = "ok"
			}
			op.Kind, op.ID = "join", id
			err = s.Join(id)
			if err == nil && op.Expect == "ok" {
				model.isIn[id] = true
			}
		case pick <= 8: // leave: single, batch, with unknown id, duplicates
			var ids []string
			k := 1 + r.Intn(3)
			for j := 0; j < k && len(known) > 0; j++ {
				ids = append(ids, known[r.Intn(len(known))])
			}
			op.Expect = "ok"
			if r.Intn(3) == 0 || len(ids) == 0 {
				ids = append(ids, "ghost")
				r.Shuffle(len(ids), func(a, b int) { ids[a], ids[b] = ids[b], ids[a] })
				op.Expect = "error"
				c.Feature("leave-with-unknown-id")
			}
			op.Kind, op.Leaves = "leave", ids
			err = s.Leave(ids...)
			if err == nil && op.Expect == "ok" {
				for _, id := range ids {
					if seat, ok := model.seatOf[id]; ok {
						vacated[seat] = true
					}
					delete(model.seatOf, id)
					delete(model.isIn, id)
				}
			}
		default: // batch update
			var leaves []string
			for j := r.Intn(4); j > 0 && len(known) > 0; j-- {
				id := known[r.Intn(len(known))]
				if len(leaves) > 0 && r.Intn(4) == 0 {
					id = leaves[0]
				}
				dup := false
				for _, l := range leaves {
					dup = dup || l == id
				}
				if !dup {
					leaves = append(leaves, id)
				} else if r.Intn(2) == 0 {
					leaves = append(leaves, id) // the same leaver named twice: still one player, one freed seat
					c.Feature("update:leaver-named-twice")
				}
			}
			leavesOK := true
			if r.Intn(6) == 0 {
				leaves = append(leaves, "ghost")
				leavesOK = false
			}
			after := &c03Model{seats: seats, seatOf: map[string]int{}}
			for id, seat := range model.seatOf {
				after.seatOf[id] = seat
			}
			if leavesOK {
				for _, id := range leaves {
					delete(after.seatOf, id)
				}
			}
			var joins []pt.JoinPlayer
			nj := r.Intn(4)
			for j := 0; j < nj; j++ {
				seat := r.Intn(seats)
				switch r.Intn(8) {
				case 0:
					seat = -1
				case 1:
					seat = seats + r.Intn(2)
				}
				id := newID()
				if r.Intn(10) == 0 && len(known) > 0 {
					id = known[r.Intn(len(known))] // somebody already seated (or just leaving)
				}
				joins = append(joins, pt.JoinPlayer{PlayerID: id, RedeemChips: 70, Seat: seat})
			}
			op.Kind, op.Joins, op.Leaves = "update", joins, leaves
			joinsOK := after.predictJoins(joins)
			switch {
			case !leavesOK:
				op.Expect = "error"
			case joinsOK:
				op.Expect = "ok"
			case len(leaves) > 0:
				op.Expect = "error" // all-or-nothing: the leave must not be applied when the join is refused
				c.Feature("update:leave-with-refused-join")
			default:
				op.Expect = "error"
			}
			var seatMap map[string]int
			seatMap, err = s.Update(joins, leaves)
			if err == nil {
				// the returned seat map names every seated player with his seat (the caller learns random seats from it)
				t := s.TE.GetTable()
				bad := len(seatMap) != len(t.State.PlayerStates)
				for _, ps := range t.State.PlayerStates {
					if seat, ok := seatMap[ps.PlayerID]; !ok || seat != ps.Seat {
						bad = true
					}
				}
				if bad {
					c.Violate("C03/batch-update-returned-wrong-seat-map", fmt.Sprintf("UpdateTablePlayers(join=%v, leave=%v) returned %v, the table seats %v", joins, leaves, seatMap, func() map[string]int {
						m := map[string]int{}
						for _, ps := range t.State.PlayerStates {
							m[ps.PlayerID] = ps.Seat
						}
						return m
					}()), witness())
					return
				}
			}
			if err == nil && op.Expect == "ok" {
				for _, id := range leaves {
					if seat, ok := model.seatOf[id]; ok {
						vacated[seat] = true
					}
					delete(model.seatOf, id)
					delete(model.isIn, id)
				}
				for _, j := range joins {
					model.seatOf[j.PlayerID] = j.Seat
					if j.Seat >= 0 && vacated[j.Seat] {
						reused++
						c.Feature("vacated-seat-taken-again")
					}
				}
			}
		}
		if op.Kind == "" {
			continue
		}
		op.Got = "ok"
		if err != nil {
			op.Got = "error: " + err.Error()
			refused++
		}
		ops = append(ops, op)
		after := c03Snap(s)
		c.Count("ops", 1)
		c.Feature("op:" + op.Kind + ":" + op.Expect)
		// read back random seats
		for id, seat := range model.seatOf {
			if seat == -1 {
				if pi := h.PlayerIdx(s.TE.GetTable(), id); pi >= 0 {
					model.seatOf[id] = s.TE.GetTable().State.PlayerStates[pi].Seat
					if vacated[model.seatOf[id]] {
						reused++
						c.Feature("vacated-seat-taken-again")
					}
				}
			}
		}
		desc := fmt.Sprintf("op %d %s joins=%v leaves=%v id=%s -> %s", i, op.Kind, op.Joins, op.Leaves, op.ID, op.Got)
		if err != nil && h.IsPanic(err) {
			c.Violate("C03/membership-operation-panicked", desc, witness())
			return
		}
		switch op.Expect {
		case "ok":
			if err != nil {
				c.Violate("C03/valid-operation-refused/"+op.Kind, desc, witness())
				return
			}
		case "error":
			if err == nil {
				c.Violate("C03/invalid-operation-accepted/"+op.Kind, desc, witness())
				return
			}
		}
		if err != nil {
			if !bytes.Equal(before.table, after.table) || !bytes.Equal(before.sm, after.sm) {
				what := "table"
				if bytes.Equal(before.table, after.table) {
					what = "seat manager"
				}
				c.Violate("C03/refused-operation-changed-state/"+op.Kind, desc+": the "+what+" differs from before the call", map[string]interface{}{"witness": witness(), "table_before": json.RawMessage(before.table), "sm_before": json.RawMessage(before.sm)})
				return
			}
		}
		if sig, det := c03Consistent(s, model); sig != "" {
			c.Violate(sig, desc+": "+det, witness())
			return
		}
	}
	if r.Intn(4) == 0 && !c.Failed() {
		// "at every moment": a departure of several players and reservations of newcomers overlap (two goroutines);
		// afterwards the three views agree and show exactly the accepted calls
		var leavers []string
		for id := range model.seatOf {
			if len(leavers) < 3 {
				leavers = append(leavers, id)
			}
		}
		sort.Strings(leavers)
		type rres struct {
			id  string
			err error
		}
		var wg sync.WaitGroup
		var lerr []error
		var rr []rres
		wg.Add(2)
		go func() {
			defer wg.Done()
			for _, id := range leavers {
				lerr = append(lerr, s.TE.PlayersLeave([]string{id}))
			}
		}()
		go func() {
			defer wg.Done()
			for k := 0; k < 3; k++ {
				id := fmt.Sprintf("storm%d", k)
				rr = append(rr, rres{id, s.TE.PlayerReserve(pt.JoinPlayer{PlayerID: id, RedeemChips: 30, Seat: -1})})
			}
		}()
		done := make(chan struct{})
		go func() { wg.Wait(); close(done) }()
		select {
		case <-done:
		case <-time.After(20 * time.Second):
			c.Inconclusive("overlapping leave / reserve did not return within 20 s")
			return
		}
		for i, id := range leavers {
			if lerr[i] == nil {
				delete(model.seatOf, id)
				delete(model.isIn, id)
			}
		}
		for _, x := range rr {
			if x.err == nil {
				if pi := h.PlayerIdx(s.TE.GetTable(), x.id); pi >= 0 {
					model.seatOf[x.id] = s.TE.GetTable().State.PlayerStates[pi].Seat
				} else {
					model.seatOf[x.id] = -1
				}
			}
		}
		c.Feature("overlapping-leave-and-reserve")
		ops = append(ops, c03Op{Kind: "overlap", Expect: "ok", Got: "ok", Leaves: leavers})
		if sig, det := c03Consistent(s, model); sig != "" {
			c.Violate(sig, fmt.Sprintf("after a departure of %v overlapping three random-seat reservations: %s", leavers, det), witness())
			return
		}
	}
	if cfg.Mode != "mtt" && r.Intn(3) == 0 && !c.Failed() {
		// last step of the sequence: the engine's auto seat-in fires (normally 17 s after the last reservation; here
		// its ready group is completed the way its own timeout handler does): everybody reserved but not seated-in
		// is seated in, in the table and in the seat manager alike
		notIn := 0
		for _, ps := range s.TE.GetTable().State.PlayerStates {
			if !ps.IsIn {
				notIn++
			}
		}
		if rg := pt.VerifAutoJoinGroup(s.TE); rg != nil && notIn > 0 {
			done := make(chan struct{})
			go func() {
				defer close(done)
				for idx, ready := range rg.GetParticipantStates() {
					if !ready {
						rg.Ready(idx)
					}
				}
			}()
			fired := false
			select {
			case <-done:
				dl := time.Now().Add(2 * time.Second)
				for time.Now().Before(dl) && !fired {
					fired = true
					for _, ps := range s.TE.GetTable().State.PlayerStates {
						fired = fired && ps.IsIn
					}
					time.Sleep(200 * time.Microsecond)
				}
			case <-time.After(3 * time.Second):
			}
			if fired {
				time.Sleep(300 * time.Microsecond)
				for id := range model.seatOf {
					model.isIn[id] = true
				}
				c.Feature("auto-seat-in-fired")
				ops = append(ops, c03Op{Kind: "auto-seat-in", Expect: "ok", Got: "ok"})
				if sig, det := c03Consistent(s, model); sig != "" {
					c.Violate(sig, fmt.Sprintf("after the engine's auto seat-in of %d reserved players: %s", notIn, det), witness())
					return
				}
			}
		}
	}
	if refused > 0 && reused > 0 {
		c.Nontrivial()
	}
	c.FP(fmt.Sprintf("%+v", cfg), fmt.Sprintf("%+v", ops))
	c.Sample(map[string]interface{}{"seats": seats, "status": status, "ops": trimC03(ops, 8), "refused": refused, "vacated_seats_reused": reused})
}

func trimC03(o []c03Op, n int) []c03Op {
	if len(o) > n {
		return o[:n]
	}
	return o
}

func init() {
	h.Register(&h.Check{
		ID:        "C03",
		Level:     "exploration",
		Technique: "runtime monitoring: random valid/invalid membership operation sequences against the real table engine; after every call the seat map, player list and seat manager are compared with each other, with a sequential reference table and (after a refusal) byte-for-byte with the state before the call",
		Rule: "case = one table (seats 2..10, any mode/rule) in status created (optionally created with players, incl. invalid lists), standby or pausing (reached through real play) receiving 10..60 operations: reserve fixed (free / taken / out-of-range seat), reserve random, re-buy, join (known / unknown), leave (single / batch / with unknown id), batch update (leaves + joins, valid and invalid); " +
			"non-trivial = the sequence contained at least one refused operation and at least one re-use of a vacated seat; distinct = fingerprint of config + operation list",
		Assumptions: []string{"operations are issued one at a time at quiescent points between hands (concurrency is C16's subject)", "the 17 s auto-join timer cannot fire within a sequence (sequences last well under a second)"},
		Cases:       func(tier string) int { return map[string]int{"quick": 4000, "thorough": 60000}[tier] },
		MinNontrivial: func(tier string) int {
			return map[string]int{"quick": 1500, "thorough": 20000}[tier]
		},
		RequiredFeatures: func(string) []string {
			return []string{"vacated-seat-taken-again", "leave-with-unknown-id", "update:leave-with-refused-join", "op:reserve:error", "op:update:ok", "op:update:error", "status:table_game_standby", "status:table_pausing", "status:table_created", "create-with-duplicate-id", "auto-seat-in-fired", "update:leaver-named-twice", "overlapping-leave-and-reserve"}
		},
		CaseTimeout: 120e9,
		Run:         c03Run,
	})
}
