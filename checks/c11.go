package checks

import (
	"fmt"
	"sort"
	"time"

	pt "github.com/weedbox/pokertable"

	h "verif/harness"
)

// C11 — a hand advances exactly when everyone asked has answered, and always finishes.

type c11Mon struct {
	c        *h.Ctx
	withhold bool // this case withholds one response per request for a grace period
	timeout  bool // thorough: one response is never sent; the 17 s fallback must move the hand on
	requests int
	usedTO   bool
	kinds    map[string]int // request kinds seen in the current hand -> number of players asked
	kindsGC  int
}

// hasNewState looks (without consuming anything) for a published state of the hand other than the given one.
func hasNewState(s *h.Sim, gid string, updatedAt int64) (bool, string) {
	adv := false
	desc := ""
	s.Peek(0, func(e *h.Ev) {
		if e.Kind == h.EvTable && e.T != nil && e.T.State.GameState != nil {
			gs := e.T.State.GameState
			if gs.GameID == gid && gs.UpdatedAt > updatedAt {
				adv = true
				desc = e.Brief()
			}
		}
	})
	return adv, desc
}

func (m *c11Mon) onRequest(p *Play, e *h.Ev, kind string, asked []string) []string {
	c := m.c
	if c.Failed() {
		return []string{}
	}
	s := p.SS.S
	t := e.T
	gs := t.State.GameState
	m.requests++
	c.Count("requests", 1)
	if m.kinds == nil || m.kindsGC != t.State.GameCount {
		m.kinds, m.kindsGC = map[string]int{}, t.State.GameCount
	}
	m.kinds[kind] = len(asked)
	w := func() interface{} {
		mm := p.witness().(map[string]interface{})
		mm["request"] = e.Brief()
		mm["asked"] = asked
		return mm
	}
	// who must be asked
	var want []string
	for gp, pl := range gs.Players {
		id := h.PidOf(t, gp)
		switch kind {
		case "ready", "ante":
			want = append(want, id)
		case "blinds":
			owes := false
			for _, pos := range pl.Positions {
				if (pos == "bb" && gs.Meta.Blind.BB > 0) || (pos == "sb" && gs.Meta.Blind.SB > 0) || (pos == "dealer" && gs.Meta.Blind.Dealer > 0) {
					owes = true
				}
			}
			if owes {
				want = append(want, id)
			}
		}
	}
	a, b := append([]string{}, asked...), append([]string{}, want...)
	sort.Strings(a)
	sort.Strings(b)
	if fmt.Sprint(a) != fmt.Sprint(b) {
		c.Violate("C11/wrong-players-asked/"+kind, fmt.Sprintf("hand %d %s request: the hand asks %v, expected %v (blind %+v, ante %d)", t.State.GameCount, kind, a, b, gs.Meta.Blind, gs.Meta.Ante), w())
		return []string{}
	}
	if len(asked) == 0 {
		return []string{}
	}
	if kind == "blinds" {
		c.Feature(fmt.Sprintf("blinds-asked=%d", len(asked)))
		if len(gs.Players) == 2 {
			c.Feature("blinds:heads-up")
		}
		if gs.Meta.Blind.Dealer > 0 {
			c.Feature("blinds:dealer-blind")
		}
		if gs.Meta.Blind.SB == 0 {
			c.Feature("blinds:no-sb")
		}
	}
	order := append([]string{}, asked...)
	p.R().Shuffle(len(order), func(i, j int) { order[i], order[j] = order[j], order[i] })
	c.FP(kind, order)
	send := func(id string) bool {
		gp := h.GameIdx(t, id)
		var err error
		switch kind {
		case "ready":
			err = s.Do(id, "ready", 0)
		case "ante":
			err = s.Do(id, "pay", gs.Meta.Ante)
		default:
			amt := gs.Meta.Blind.Dealer
			if gs.HasPosition(gp, "bb") {
				amt = gs.Meta.Blind.BB
			} else if gs.HasPosition(gp, "sb") {
				amt = gs.Meta.Blind.SB
			}
			err = s.Do(id, "pay", amt)
		}
		if err != nil {
			c.Violate("C11/response-of-asked-player-refused/"+kind, fmt.Sprintf("hand %d: %s answered the %s request and got %v", t.State.GameCount, id, kind, err), w())
			return false
		}
		return true
	}
	timeoutHere := m.timeout && !m.usedTO && (kind == "blinds" && len(gs.Players) >= 3 || m.requests >= 4)
	if timeoutHere && kind == "blinds" {
		// withhold the big blind's answer (the asked players are then not entries 0..n-1)
		for i, id := range order {
			if gp := h.GameIdx(t, id); gp >= 0 && gs.HasPosition(gp, "bb") {
				order[i], order[len(order)-1] = order[len(order)-1], order[i]
				c.Feature("timeout:big-blind-withheld")
			}
		}
	}
	for i, id := range order[:len(order)-1] {
		if !send(id) {
			return []string{}
		}
		if i%2 == 0 {
			time.Sleep(100 * time.Microsecond)
		}
		if adv, d := hasNewState(s, gs.GameID, gs.UpdatedAt); adv {
			c.Violate("C11/advanced-before-everyone-answered/"+kind, fmt.Sprintf("hand %d: after %d of %d answers to the %s request the hand moved on (%s)", t.State.GameCount, i+1, len(order), kind, d), w())
			return []string{}
		}
	}
	last := order[len(order)-1]
	start := time.Now()
	if timeoutHere {
		// never answer: after the response timeout (17 s) the hand must move on by itself, not earlier
		m.usedTO = true
		moved := false
		for time.Since(start) < 24*time.Second && !moved {
			time.Sleep(100 * time.Millisecond)
			moved, _ = hasNewState(s, gs.GameID, gs.UpdatedAt)
		}
		el := time.Since(start)
		if !moved {
			c.Violate("C11/no-advance-after-response-timeout/"+kind, fmt.Sprintf("hand %d: %s never answered the %s request; 24 s later the hand has not moved on (timeout 17 s)", t.State.GameCount, last, kind), w())
		} else if el < 16500*time.Millisecond {
			c.Violate("C11/advanced-before-everyone-answered/"+kind, fmt.Sprintf("hand %d: %s had not answered and the hand moved on after %v (timeout 17 s)", t.State.GameCount, last, el), w())
		} else {
			c.Feature("moved-on-after-17s-timeout")
		}
		return []string{}
	}
	if m.withhold {
		time.Sleep(time.Duration(20+p.R().Intn(120)) * time.Millisecond)
		if adv, d := hasNewState(s, gs.GameID, gs.UpdatedAt); adv {
			c.Violate("C11/advanced-before-everyone-answered/"+kind, fmt.Sprintf("hand %d: %s had not answered the %s request yet, %v after the others the hand moved on (%s)", t.State.GameCount, last, kind, time.Since(start), d), w())
			return []string{}
		}
		c.Feature("withheld-response:" + kind)
	}
	if !send(last) {
		return []string{}
	}
	// now it must move on by itself: the next state arrives without any further call
	c.Feature("all-answered:" + kind)
	return []string{}
}

func c11Run(c *h.Ctx) {
	m := &c11Mon{c: c, withhold: c.Case%3 == 0, timeout: c.Case%40 == 7}
	r := c.R
	po := PlayOpts{
		Hands:    2 + r.Intn(3),
		Churn:    Churn{BetweenP: 0.3, Rebuy: true, BuyIn: true, SitOut: true, ResumePaused: true, MidP: 0.15, MidLeaveOther: true, MidJoin: true},
		Gen:      h.GenOpts{MinSeats: 2, MaxSeats: 10, MinPlayers: 2, ShortStacks: r.Intn(2) == 0},
		Policies: []string{"random", "maniac", "nit", "callstation"},
		MaxWait:  14 * time.Second,
	}
	if m.timeout {
		po.Hands = 1
		po.MaxWait = 30 * time.Second
	}
	mon := &PlayMon{OnRequest: m.onRequest}
	mon.AfterHand = func(p *Play, hd *h.Hand) {
		if c.Failed() {
			return
		}
		roster := hd.Roster()
		// the table's own level for this hand says what has to be collected: an ante from every dealt-in player
		// (which blind positions are asked depends on the hand engine's own rules for zero amounts and is judged per request)
		if gb := hd.Settled.T.State.GameBlindState; gb != nil && m.kindsGC == hd.Settled.T.State.GameCount {
			if gb.Ante > 0 && m.kinds["ante"] != len(roster) {
				c.Violate("C11/ante-not-requested-from-everybody", fmt.Sprintf("hand %d is played at ante %d: %d of %d dealt-in players were asked for it", p.HandNo, gb.Ante, m.kinds["ante"], len(roster)), p.witness())
				return
			}
		}
		res, _ := p.HandResult(hd)
		if res == nil || len(res.Players) != len(roster) {
			n := -1
			if res != nil {
				n = len(res.Players)
			}
			c.Violate("C11/result-entries", fmt.Sprintf("hand %d settled with %d result entries for %d participants", p.HandNo, n, len(roster)), p.witness())
			return
		}
		seen := map[int]bool{}
		for _, pr := range res.Players {
			seen[pr.Idx] = true
		}
		if len(seen) != len(roster) {
			c.Violate("C11/result-entries", fmt.Sprintf("hand %d: result entries %v do not cover the %d participants", p.HandNo, seen, len(roster)), p.witness())
			return
		}
		// step bound
		acts := 0
		for _, a := range hd.Acts {
			if a.Err == "" && wagerActs[a.Act] {
				acts++
			}
		}
		var chips int64
		for _, ps := range hd.Opened.T.State.PlayerStates {
			if ps.IsParticipated {
				chips += ps.Bankroll
			}
		}
		unit := hd.Opened.T.State.BlindState.BB
		if unit <= 0 {
			unit = 1
		}
		bound := 4 * (2*len(roster) + int(chips/unit) + 4)
		if acts > bound {
			c.Violate("C11/too-many-steps", fmt.Sprintf("hand %d needed %d wager actions (bound %d)", p.HandNo, acts, bound), p.witness())
			return
		}
		rounds := map[string]bool{}
		for _, e := range hd.Snaps {
			if gs := e.T.State.GameState; gs != nil && gs.Status.Round != "" {
				rounds[gs.Status.Round] = true
			}
		}
		c.Feature(fmt.Sprintf("rounds-seen=%d", len(rounds)))
		c.Feature(fmt.Sprintf("participants=%d", len(roster)))
		c.Count("hands_settled", 1)
		c.Nontrivial()
	}
	p := RunPlay(c, po, mon)
	if p == nil {
		return
	}
	c.FP(fmt.Sprintf("%+v", p.Cfg), c.Seed)
	if p.Stalled && !c.Failed() {
		hd := p.CurHand
		if hd != nil && hd.Opened != nil {
			// every request was answered by everyone asked (or the driver made a legal move) and yet the hand is stuck
			last := ""
			if n := len(hd.Snaps); n > 0 {
				last = hd.Snaps[n-1].Brief()
			}
			c.Violate("C11/hand-did-not-finish", fmt.Sprintf("hand %d: all requests answered and all turns played, but 14 s after the last answer the hand has neither advanced nor settled; last state: %s", p.HandNo, last), p.witness())
			return
		}
		c.InconclusiveW("foreign: the next hand did not open (C08's subject)", p.witness())
		return
	}
	c.Sample(map[string]interface{}{"cfg": p.Cfg, "hands": len(p.SS.Hands), "requests": m.requests, "withhold": m.withhold})
	_ = pt.UnsetValue
}

func init() {
	h.Register(&h.Check{
		ID:        "C11",
		Level:     "exploration",
		Technique: "runtime monitoring: at every readiness / ante / blind request of generated hands the driver compares who is asked with who must be asked, answers in a PRNG-chosen order and checks after each answer but the last (and after a grace period with one answer withheld) that no new hand state was published; settlement, result entries and a step bound are checked per hand",
		Rule: "case = one generated table (2..10 participants, ante on/off, SB/BB, dealer-blind and no-SB structures, short and deep stacks, all-in and fold-out lines) playing 2..4 hands; every third case withholds the last answer of each request for 20..140 ms; one case in forty never sends one answer (the big blind's at a blinds request with three or more players when possible) and awaits the 17 s fallback; " +
			"non-trivial = at least one hand settled with all requests judged; distinct = fingerprint of config + answer orders",
		Assumptions: []string{
			"'does not advance early' is observed as: no new hand state published after a short grace period following each answer but the last (a longer wait could only reveal more)",
			"'moves on by itself after the timeout' is exercised in one case in forty (17 s each, run in parallel); bounds 16.5 s .. 24 s",
			"liveness: a hand with every request answered and every turn played that shows no new state for 14 s is reported as not finishing (the engine's own fallback timers are 17 s, so they cannot rescue it silently)",
		},
		Cases: func(tier string) int { return map[string]int{"quick": 480, "thorough": 8000}[tier] },
		MinNontrivial: func(tier string) int {
			return map[string]int{"quick": 400, "thorough": 7000}[tier]
		},
		RequiredFeatures: func(tier string) []string {
			f := []string{"all-answered:ready", "all-answered:ante", "all-answered:blinds", "withheld-response:ready", "withheld-response:blinds", "blinds:heads-up", "blinds:dealer-blind", "blinds:no-sb", "rounds-seen=4", "rounds-seen=1", "participants=2", "participants=6"}
			f = append(f, "moved-on-after-17s-timeout", "timeout:big-blind-withheld")
			return f
		},
		CaseTimeout: 240e9,
		InProc:      2,
		Run:         c11Run,
	})
}
