package checks

import (
	"encoding/json"
	"fmt"
	"math/rand"
	"sort"
	"strings"
	"sync"
	"sync/atomic"
	"time"

	"github.com/anishathalye/porcupine"
	"github.com/weedbox/pokerface"
	pt "github.com/weedbox/pokertable"
	sm "github.com/weedbox/pokertable/seat_manager"

	h "verif/harness"
)

// C16 — concurrent callers see one-at-a-time behaviour.
//
// Part A: storms of membership calls against one table; the recorded history is checked for linearizability
//         (porcupine) against a sequential seat table, then the C03 bookkeeping oracle runs on the final state.
// Part B: the same against the seat manager alone.
// Part C: all participants fire game actions at every turn; the backend call chain must be unforked, every
//         accepted call must match one applied step, the hand settles and chips are conserved.
// All parts run under the race detector; a report whose two access stacks both lie in sections the code
// serialises with the same lock means the mutual exclusion is gone.

type seatIn struct {
	Kind  string // reserve | random | rebuy | leave | read | assign | remove | join | chips
	ID    string
	Seat  int
	IDs   []string
	Batch map[string]int
}
type seatOut struct {
	Err   bool
	Seat  int            // observed seat for random reserve (-1 unknown)
	Final map[string]int // for read
}

// state: canonical "id@seat,id@seat" sorted by id, prefixed with capacity
func stParse(s string) (int, map[string]int) {
	parts := strings.SplitN(s, "|", 2)
	var capn int
	fmt.Sscanf(parts[0], "%d", &capn)
	m := map[string]int{}
	if len(parts) > 1 && parts[1] != "" {
		for _, e := range strings.Split(parts[1], ",") {
			var id string
			var seat int
			kv := strings.SplitN(e, "@", 2)
			id = kv[0]
			fmt.Sscanf(kv[1], "%d", &seat)
			m[id] = seat
		}
	}
	return capn, m
}
func stFmt(capn int, m map[string]int) string {
	ids := make([]string, 0, len(m))
	for id := range m {
		ids = append(ids, id)
	}
	sort.Strings(ids)
	es := make([]string, 0, len(ids))
	for _, id := range ids {
		es = append(es, fmt.Sprintf("%s@%d", id, m[id]))
	}
	return fmt.Sprintf("%d|%s", capn, strings.Join(es, ","))
}
func seatTaken(m map[string]int, seat int) bool {
	for _, s := range m {
		if s == seat {
			return true
		}
	}
	return false
}

// seatModel is the sequential specification shared by parts A and B. tableLevel selects the table API semantics
// (re-buy of a seated id succeeds, capacity refusal) vs the seat manager API (existing id is an error).
func seatModel(tableLevel bool) porcupine.Model {
	return porcupine.Model{
		Init: func() interface{} { return "" },
		Step: func(state, input, output interface{}) (bool, interface{}) {
			capn, m := stParse(state.(string))
			in, out := input.(seatIn), output.(seatOut)
			switch in.Kind {
			case "init":
				return true, stFmt(in.Seat, in.Batch)
			case "reserve", "assign":
				batch := in.Batch
				if batch == nil {
					batch = map[string]int{in.ID: in.Seat}
				}
				if tableLevel && len(batch) == 1 {
					if _, ok := m[in.ID]; ok { // re-buy
						return !out.Err, state
					}
				}
				ok := len(m)+len(batch) <= capn
				seen := map[int]bool{}
				for id, seat := range batch {
					if _, ex := m[id]; ex {
						ok = false
					}
					if seat < 0 || seat >= capn || seatTaken(m, seat) || seen[seat] {
						ok = false
					}
					seen[seat] = true
				}
				if !ok {
					return out.Err, state
				}
				if out.Err {
					return false, state
				}
				for id, seat := range batch {
					m[id] = seat
				}
				return true, stFmt(capn, m)
			case "random":
				if _, ex := m[in.ID]; ex && tableLevel {
					return !out.Err, state
				}
				if len(m) >= capn {
					return out.Err, state
				}
				if out.Err {
					return false, state
				}
				if out.Seat < 0 || out.Seat >= capn || seatTaken(m, out.Seat) {
					return false, state
				}
				m[in.ID] = out.Seat
				return true, stFmt(capn, m)
			case "leave", "remove":
				all := true
				for _, id := range in.IDs {
					if _, ok := m[id]; !ok {
						all = false
					}
				}
				if !all {
					return out.Err, state
				}
				if out.Err {
					return false, state
				}
				for _, id := range in.IDs {
					delete(m, id)
				}
				return true, stFmt(capn, m)
			case "join", "chips":
				_, ok := m[in.ID]
				return ok == !out.Err, state
			case "read":
				return stFmt(capn, out.Final) == state.(string), state
			}
			return false, state
		},
		Equal: func(a, b interface{}) bool { return a.(string) == b.(string) },
		DescribeOperation: func(input, output interface{}) string {
			in, out := input.(seatIn), output.(seatOut)
			return fmt.Sprintf("%s(%s seat=%d ids=%v batch=%v) -> err=%v seat=%d", in.Kind, in.ID, in.Seat, in.IDs, in.Batch, out.Err, out.Seat)
		},
	}
}

func describeOps(ops []porcupine.Operation) []string {
	out := []string{}
	for _, o := range ops {
		in, ou := o.Input.(seatIn), o.Output.(seatOut)
		out = append(out, fmt.Sprintf("c%d [%d,%d] %s(%s seat=%d ids=%v batch=%v) -> err=%v seat=%d final=%v", o.ClientId, o.Call, o.Return, in.Kind, in.ID, in.Seat, in.IDs, in.Batch, ou.Err, ou.Seat, ou.Final))
	}
	return out
}

// ---- part A ---------------------------------------------------------------

func c16A(c *h.Ctx) {
	r := c.R
	seats := 2 + r.Intn(9)
	opts := pt.NewTableEngineOptions()
	opts.GameContinueInterval = 0
	te := pt.NewTableEngine(opts, pt.WithGameBackend(pt.NewNativeGameBackend()))
	const maxIDs = 256
	var seen [maxIDs]int32
	for i := range seen {
		seen[i] = -1
	}
	te.OnTablePlayerReserved(func(cid, tid string, ps *pt.TablePlayerState) {
		var k int
		if _, err := fmt.Sscanf(ps.PlayerID, "r%d", &k); err == nil && k >= 0 && k < maxIDs {
			atomic.StoreInt32(&seen[k], int32(ps.Seat))
		}
	})
	setting := pt.TableSetting{TableID: "T", Meta: pt.TableMeta{CompetitionID: "C", Rule: "default", Mode: "ct", MaxDuration: 1 << 30, TableMaxSeatCount: seats, TableMinPlayerCount: 2, ActionTime: 10}, Blind: pt.TableBlindState{Level: 1, SB: 5, BB: 10}}
	if _, err := te.CreateTable(setting); err != nil {
		c.Inconclusive("create: " + err.Error())
		return
	}
	// initial players (sequential)
	init := map[string]int{}
	nid := 0
	k0 := r.Intn(seats)
	perm := r.Perm(seats)
	for i := 0; i < k0; i++ {
		id := fmt.Sprintf("r%d", nid)
		nid++
		if err := te.PlayerReserve(pt.JoinPlayer{PlayerID: id, RedeemChips: 100, Seat: perm[i]}); err != nil {
			c.Inconclusive("initial reserve failed: " + err.Error())
			return
		}
		init[id] = perm[i]
	}
	var ops []porcupine.Operation
	ops = append(ops, porcupine.Operation{ClientId: 0, Input: seatIn{Kind: "init", Seat: seats, Batch: copyMap(init)}, Output: seatOut{}, Call: 0, Return: 1})
	n := 8 + r.Intn(25)
	type planned struct {
		in seatIn
		jp []pt.JoinPlayer
	}
	plan := make([]planned, n)
	existing := []string{}
	for id := range init {
		existing = append(existing, id)
	}
	sort.Strings(existing)
	hot := []int{r.Intn(seats), r.Intn(seats), r.Intn(seats)}
	for i := 0; i < n; i++ {
		switch r.Intn(10) {
		case 0, 1, 2, 3: // fixed seat, mostly the same few seats
			seat := hot[r.Intn(len(hot))]
			if r.Intn(3) == 0 {
				seat = r.Intn(seats)
			}
			id := fmt.Sprintf("r%d", nid)
			nid++
			plan[i] = planned{in: seatIn{Kind: "reserve", ID: id, Seat: seat}}
		case 4, 5:
			id := fmt.Sprintf("r%d", nid)
			nid++
			plan[i] = planned{in: seatIn{Kind: "random", ID: id, Seat: -1}}
		case 6:
			if len(existing) > 0 {
				plan[i] = planned{in: seatIn{Kind: "reserve", ID: existing[r.Intn(len(existing))], Seat: r.Intn(seats)}}
			} else {
				id := fmt.Sprintf("r%d", nid)
				nid++
				plan[i] = planned{in: seatIn{Kind: "random", ID: id, Seat: -1}}
			}
		case 7, 8:
			var ids []string
			if len(existing) > 0 {
				ids = append(ids, existing[r.Intn(len(existing))])
			}
			if r.Intn(3) == 0 && nid > 0 {
				ids = append(ids, fmt.Sprintf("r%d", r.Intn(nid))) // maybe being reserved right now, maybe unknown
			}
			if len(ids) == 0 {
				ids = []string{"r0"}
			}
			ids = dedup(ids)
			plan[i] = planned{in: seatIn{Kind: "leave", IDs: ids}}
		default: // join-only batch update of two players on fixed seats
			a, b := fmt.Sprintf("r%d", nid), fmt.Sprintf("r%d", nid+1)
			nid += 2
			s1, s2 := r.Intn(seats), r.Intn(seats)
			plan[i] = planned{in: seatIn{Kind: "reserve", ID: a, Batch: map[string]int{a: s1, b: s2}}}
			if s1 == s2 {
				plan[i].in.Batch = map[string]int{a: s1}
				plan[i].in.Kind = "reserve"
			}
		}
	}
	if nid >= maxIDs {
		c.Inconclusive("too many ids")
		return
	}
	results := make([]porcupine.Operation, n)
	var wg sync.WaitGroup
	start := make(chan struct{})
	for i := 0; i < n; i++ {
		wg.Add(1)
		go func(i int) {
			defer wg.Done()
			<-start
			in := plan[i].in
			call := h.Mono()
			var err error
			func() {
				defer func() {
					if rec := recover(); rec != nil {
						err = fmt.Errorf("panic: %v", rec)
					}
				}()
				switch in.Kind {
				case "reserve":
					if in.Batch != nil {
						var js []pt.JoinPlayer
						for id, seat := range in.Batch {
							js = append(js, pt.JoinPlayer{PlayerID: id, RedeemChips: 10, Seat: seat})
						}
						_, err = te.UpdateTablePlayers(js, nil)
					} else {
						err = te.PlayerReserve(pt.JoinPlayer{PlayerID: in.ID, RedeemChips: 10, Seat: in.Seat})
					}
				case "random":
					err = te.PlayerReserve(pt.JoinPlayer{PlayerID: in.ID, RedeemChips: 10, Seat: -1})
				case "leave":
					if len(in.IDs) > 1 {
						_, err = te.UpdateTablePlayers(nil, in.IDs)
					} else {
						err = te.PlayersLeave(in.IDs)
					}
				}
			}()
			ret := h.Mono()
			out := seatOut{Err: err != nil, Seat: -1}
			if in.Kind == "random" && err == nil {
				var k int
				fmt.Sscanf(in.ID, "r%d", &k)
				out.Seat = int(atomic.LoadInt32(&seen[k]))
			}
			results[i] = porcupine.Operation{ClientId: i + 1, Input: in, Output: out, Call: call, Return: ret}
		}(i)
	}
	// top-ups race with the membership calls (for seated players, for players leaving right now, for nobody at all):
	// they are not part of the seat history, but they share the engine lock with it
	for k := 2 + r.Intn(3); k > 0; k-- {
		id := "ghost"
		if len(existing) > 0 && r.Intn(3) > 0 {
			id = existing[r.Intn(len(existing))]
		}
		wg.Add(1)
		go func(id string) {
			defer wg.Done()
			<-start
			te.PlayerRedeemChips(pt.JoinPlayer{PlayerID: id, RedeemChips: 5})
		}(id)
	}
	close(start)
	done := make(chan struct{})
	go func() { wg.Wait(); close(done) }()
	select {
	case <-done:
	case <-time.After(20 * time.Second):
		held := true
		for i := 0; i < 20 && held; i++ {
			held = pt.VerifEngineLockHeld(te)
			time.Sleep(100 * time.Millisecond)
		}
		if held {
			c.Violate("C16/engine-lock-left-held", "a storm of concurrent reservations, departures, batch updates and top-ups has not finished after 20 s and the engine lock is found held at every probe of a further 2 s: one of the calls returned without releasing it", map[string]interface{}{"seats": seats})
			return
		}
		c.Inconclusive("membership storm did not finish within 20s")
		return
	}
	ops = append(ops, results...)
	// final read
	t := te.GetTable()
	final := map[string]int{}
	for _, ps := range t.State.PlayerStates {
		final[ps.PlayerID] = ps.Seat
	}
	end := h.Mono() + 1
	ops = append(ops, porcupine.Operation{ClientId: n + 1, Input: seatIn{Kind: "read"}, Output: seatOut{Final: final}, Call: end, Return: end + 1})
	res, _ := porcupine.CheckOperationsVerbose(seatModel(true), ops, 20*time.Second)
	w := map[string]interface{}{"seats": seats, "history": describeOps(ops)}
	switch res {
	case porcupine.Illegal:
		c.Violate("C16/membership-history-not-linearizable", fmt.Sprintf("no one-at-a-time order of the %d concurrent membership calls explains their results and the final seating %v", n, final), w)
		return
	case porcupine.Unknown:
		c.Inconclusive("linearizability checker timed out")
		return
	}
	// C03 bookkeeping on the final state
	s := &h.Sim{TE: te}
	if sig, det := c03Consistent(s, nil); sig != "" {
		c.Violate("C16/"+strings.TrimPrefix(sig, "C03/"), "after the storm: "+det, w)
		return
	}
	if len(t.State.PlayerStates) > seats {
		c.Violate("C16/capacity-exceeded", fmt.Sprintf("%d players on %d seats", len(t.State.PlayerStates), seats), w)
		return
	}
	// interleaving evidence: order of accepted ops by return time
	acc := 0
	for _, o := range results {
		if !o.Output.(seatOut).Err {
			acc++
		}
	}
	overlap := 0
	for i := range results {
		for j := i + 1; j < len(results); j++ {
			if results[i].Call <= results[j].Return && results[j].Call <= results[i].Return {
				overlap++
			}
		}
	}
	c.Count("A_ops", int64(n))
	c.Count("A_overlapping_pairs", int64(overlap))
	c.Count("A_accepted", int64(acc))
	c.Feature("A:storm")
	if overlap > 0 {
		c.Nontrivial()
	}
	c.FP("A", fmt.Sprint(describeOps(results)))
	c.Sample(map[string]interface{}{"part": "A", "seats": seats, "concurrent_calls": n, "overlapping_pairs": overlap, "history_head": describeOps(ops)[:minInt(6, len(ops))]})
}

func copyMap(m map[string]int) map[string]int {
	o := map[string]int{}
	for k, v := range m {
		o[k] = v
	}
	return o
}
func dedup(a []string) []string {
	s := map[string]bool{}
	var o []string
	for _, x := range a {
		if !s[x] {
			s[x] = true
			o = append(o, x)
		}
	}
	return o
}
func minInt(a, b int) int {
	if a < b {
		return a
	}
	return b
}

// ---- part B ---------------------------------------------------------------

func c16B(c *h.Ctx) {
	r := c.R
	seats := 2 + r.Intn(9)
	m := sm.NewSeatManager(seats, []string{"default", "short_deck"}[r.Intn(2)])
	n := 8 + r.Intn(33)
	nid := 0
	plan := make([]seatIn, n)
	hot := []int{r.Intn(seats), r.Intn(seats)}
	for i := range plan {
		switch r.Intn(8) {
		case 0, 1, 2:
			seat := hot[r.Intn(len(hot))]
			id := fmt.Sprintf("r%d", nid)
			nid++
			plan[i] = seatIn{Kind: "assign", ID: id, Seat: seat}
		case 3:
			a, b := fmt.Sprintf("r%d", nid), fmt.Sprintf("r%d", nid+1)
			nid += 2
			s1, s2 := r.Intn(seats), r.Intn(seats)
			if s1 == s2 {
				s2 = (s1 + 1) % seats
			}
			plan[i] = seatIn{Kind: "assign", ID: a, Batch: map[string]int{a: s1, b: s2}}
		case 4, 5:
			id := fmt.Sprintf("r%d", nid)
			nid++
			plan[i] = seatIn{Kind: "random", ID: id}
		case 6:
			plan[i] = seatIn{Kind: "remove", IDs: []string{fmt.Sprintf("r%d", r.Intn(nid+1))}}
		default:
			k := []string{"join", "chips"}[r.Intn(2)]
			plan[i] = seatIn{Kind: k, ID: fmt.Sprintf("r%d", r.Intn(nid+1))}
		}
	}
	results := make([]porcupine.Operation, n)
	var wg sync.WaitGroup
	start := make(chan struct{})
	for i := 0; i < n; i++ {
		wg.Add(1)
		go func(i int) {
			defer wg.Done()
			<-start
			in := plan[i]
			call := h.Mono()
			var err error
			switch in.Kind {
			case "assign":
				b := in.Batch
				if b == nil {
					b = map[string]int{in.ID: in.Seat}
				}
				err = m.AssignSeats(b)
			case "random":
				err = m.RandomAssignSeats([]string{in.ID})
			case "remove":
				err = m.RemoveSeats(in.IDs)
			case "join":
				err = m.JoinPlayers([]string{in.ID})
			case "chips":
				err = m.UpdatePlayerHasChips(in.ID, i%2 == 0)
			}
			ret := h.Mono()
			results[i] = porcupine.Operation{ClientId: i + 1, Input: in, Output: seatOut{Err: err != nil, Seat: -1}, Call: call, Return: ret}
		}(i)
	}
	close(start)
	wg.Wait()
	st := smSnap(m)
	final := map[string]int{}
	dup := ""
	for seat, sp := range st.SeatData {
		if sp != nil {
			if o, ok := final[sp.ID]; ok {
				dup = fmt.Sprintf("player %s holds seats %d and %d", sp.ID, o, seat)
			}
			final[sp.ID] = seat
		}
	}
	// random assignments: the seat is read from the final state when the player is still seated; otherwise unknown,
	// so only histories where every randomly seated player is still there are judged by the linearizability checker
	judge := true
	for i := range results {
		in := results[i].Input.(seatIn)
		out := results[i].Output.(seatOut)
		if in.Kind == "random" && !out.Err {
			if seat, ok := final[in.ID]; ok {
				out.Seat = seat
				results[i].Output = out
			} else {
				judge = false
			}
		}
	}
	w := map[string]interface{}{"seats": seats, "history": describeOps(results), "final": final}
	if dup != "" {
		c.Violate("C16/seat-manager-double-booking", dup, w)
		return
	}
	if len(final) > seats {
		c.Violate("C16/seat-manager-capacity", fmt.Sprintf("%d players on %d seats", len(final), seats), w)
		return
	}
	if judge {
		ops := []porcupine.Operation{{ClientId: 0, Input: seatIn{Kind: "init", Seat: seats, Batch: map[string]int{}}, Output: seatOut{}, Call: 0, Return: 1}}
		ops = append(ops, results...)
		end := h.Mono() + 1
		ops = append(ops, porcupine.Operation{ClientId: n + 1, Input: seatIn{Kind: "read"}, Output: seatOut{Final: final}, Call: end, Return: end + 1})
		res, _ := porcupine.CheckOperationsVerbose(seatModel(false), ops, 20*time.Second)
		if res == porcupine.Illegal {
			c.Violate("C16/seat-manager-history-not-linearizable", fmt.Sprintf("no one-at-a-time order of the %d concurrent seat-manager calls explains their results and the final seats %v", n, final), w)
			return
		}
		if res == porcupine.Unknown {
			c.Inconclusive("linearizability checker timed out")
			return
		}
		c.Count("B_histories_checked", 1)
	}
	c.Count("B_ops", int64(n))
	c.Feature("B:storm")
	c.Nontrivial()
	c.FP("B", fmt.Sprint(describeOps(results)))
	c.Sample(map[string]interface{}{"part": "B", "seats": seats, "concurrent_calls": n, "history_head": describeOps(results)[:minInt(6, len(results))]})
}

// ---- part C ---------------------------------------------------------------

func c16C(c *h.Ctx) {
	r := c.R
	n := 2 + r.Intn(5)
	rig := h.NewRigBackend()
	rig.DeckFn = h.SeededDeck(rand.New(rand.NewSource(r.Int63())))
	opts := pt.NewTableEngineOptions()
	opts.GameContinueInterval = 0
	te := pt.NewTableEngine(opts, pt.WithGameBackend(rig))
	type snap struct {
		j []byte
	}
	evs := make(chan []byte, 4096)
	te.OnTableStateUpdated(func(ev string, t *pt.Table) {
		if ev == pt.TableStateEvent_GameUpdated || ev == pt.TableStateEvent_GameSettled {
			b, _ := json.Marshal(t)
			select {
			case evs <- b:
			default:
			}
		}
	})
	var accEvents int64
	te.OnGamePlayerActionUpdated(func(a pt.TablePlayerGameAction) {
		if wagerActs[a.Action] && a.Round != "ante" {
			atomic.AddInt64(&accEvents, 1)
		}
	})
	setupCh := make(chan struct{}, 16)
	te.OnReadyOpenFirstTableGame(func(cid, tid string, gc int, ps []*pt.TablePlayerState) {
		parts := map[string]int{}
		for i, p := range ps {
			parts[p.PlayerID] = i
		}
		te.SetUpTableGame(gc, parts)
		setupCh <- struct{}{}
	})
	setting := pt.TableSetting{TableID: "T", Meta: pt.TableMeta{CompetitionID: "C", Rule: "default", Mode: "ct", MaxDuration: 1 << 30, TableMaxSeatCount: 9, TableMinPlayerCount: 2, ActionTime: 10}, Blind: pt.TableBlindState{Level: 1, SB: 5, BB: 10}}
	var total int64
	ids := []string{}
	for i := 0; i < n; i++ {
		chips := int64(30 + r.Intn(400))
		total += chips
		setting.JoinPlayers = append(setting.JoinPlayers, pt.JoinPlayer{PlayerID: fmt.Sprintf("p%d", i), RedeemChips: chips, Seat: i})
		ids = append(ids, fmt.Sprintf("p%d", i))
	}
	if _, err := te.CreateTable(setting); err != nil {
		c.Inconclusive(err.Error())
		return
	}
	for _, id := range ids {
		te.PlayerJoin(id)
		time.Sleep(300 * time.Microsecond)
	}
	te.StartTableGame()
	select {
	case <-setupCh:
	case <-time.After(5 * time.Second):
		c.Inconclusive("no first set-up")
		return
	}
	for _, id := range ids {
		te.PlayerSettlementFinish(id)
	}
	seen := map[string]bool{}
	var accepted int64
	turns, bursts, rapid := 0, 0, 0
	deadline := time.After(40 * time.Second)
	settled := false
	var last pt.Table
loop:
	for {
		select {
		case b := <-evs:
			var t pt.Table
			if json.Unmarshal(b, &t) != nil || t.State.GameState == nil {
				continue
			}
			last = t
			if t.State.Status == pt.TableStateStatus_TableGameSettled {
				settled = true
				break loop
			}
			gs := t.State.GameState
			key := fmt.Sprintf("%s/%d", gs.GameID, gs.UpdatedAt)
			if seen[key] {
				continue
			}
			seen[key] = true
			switch gs.Status.CurrentEvent {
			case "ReadyRequested":
				for gp := range gs.Players {
					te.PlayerReady(h.PidOf(&t, gp))
				}
			case "AnteRequested":
				for gp := range gs.Players {
					te.PlayerPay(h.PidOf(&t, gp), gs.Meta.Ante)
				}
			case "BlindsRequested":
				for gp := range gs.Players {
					if gs.HasAction(gp, "pay") {
						te.PlayerPay(h.PidOf(&t, gp), 0)
					}
				}
			case "RoundStarted":
				cp := gs.Status.CurrentPlayer
				if cp < 0 || len(gs.Players[cp].AllowedActions) == 0 {
					continue
				}
				turns++
				// everybody fires at once, the current player several times
				var wg sync.WaitGroup
				start := make(chan struct{})
				fire := func(pid, actn string, chips int64) {
					wg.Add(1)
					go func() {
						defer wg.Done()
						<-start
						if err := h.DoAction(te, pid, actn, chips); err == nil && wagerActs[actn] {
							atomic.AddInt64(&accepted, 1)
						}
					}()
				}
				cur := h.PidOf(&t, cp)
				legal := gs.Players[cp].AllowedActions
				for k := 0; k < 3; k++ {
					a := legal[r.Intn(len(legal))]
					fire(cur, a, c16Size(r, gs, gs.Players[cp], a))
				}
				for gp := range gs.Players {
					pid := h.PidOf(&t, gp)
					for _, a := range []string{"fold", "call", "check", "allin", "raise", "pass"} {
						if r.Intn(2) == 0 {
							fire(pid, a, gs.Status.CurrentWager*2+10)
						}
					}
				}
				bursts++
				close(start)
				wg.Wait()
				// rapid volley: the hand engine's own state has already moved on although the table snapshot may not have
				// been published yet. If it is somebody's turn now, everybody fires again at once; in every one-at-a-time
				// order the first applicable action of the player whose turn it is gets accepted, so at least one of his
				// must be.
				if g := te.GetGame(); g != nil && r.Intn(2) == 0 {
					if g2 := g.GetGameState(); g2 != nil && g2.UpdatedAt != gs.UpdatedAt && g2.GameID == gs.GameID && g2.Status.CurrentEvent == "RoundStarted" {
						cp2 := g2.Status.CurrentPlayer
						if cp2 >= 0 && cp2 < len(g2.Players) && len(g2.Players[cp2].AllowedActions) > 0 {
							var legal2 []string // amount-free kinds only: their acceptance does not depend on a size
							for _, a := range g2.Players[cp2].AllowedActions {
								switch a {
								case "fold", "check", "call", "allin", "pass":
									legal2 = append(legal2, a)
								}
							}
							if len(legal2) == 0 {
								continue
							}
							cur2 := h.PidOf(&t, cp2)
							var wg2 sync.WaitGroup
							start2 := make(chan struct{})
							var accCur int64
							fire2 := func(pid, actn string, chips int64) {
								wg2.Add(1)
								go func() {
									defer wg2.Done()
									<-start2
									if err := h.DoAction(te, pid, actn, chips); err == nil && wagerActs[actn] {
										atomic.AddInt64(&accepted, 1)
										if pid == cur2 {
											atomic.AddInt64(&accCur, 1)
										}
									}
								}()
							}
							for k := 0; k < 2; k++ {
								a := legal2[r.Intn(len(legal2))]
								fire2(cur2, a, c16Size(r, g2, g2.Players[cp2], a))
							}
							for gp := range g2.Players {
								if gp != cp2 && r.Intn(2) == 0 {
									fire2(h.PidOf(&t, gp), []string{"fold", "call", "check", "allin"}[r.Intn(4)], 0)
								}
							}
							close(start2)
							wg2.Wait()
							rapid++
							if atomic.LoadInt64(&accCur) == 0 {
								c.Violate("C16/turn-holder-refused", fmt.Sprintf("turn %d: the hand engine waits for %s (allowed %v); he and others fired at once right after the previous action had been accepted, and none of his legal actions was accepted", turns, cur2, legal2), map[string]interface{}{"players": n, "backend_calls": briefCalls(rig.Snapshot())})
								return
							}
						}
					}
				}
			}
		case <-deadline:
			break loop
		}
	}
	// the burst may have accepted the hand's last action after the settled event was taken: settle for a moment
	time.Sleep(20 * time.Millisecond)
	calls := rig.Snapshot()
	w := map[string]interface{}{"players": n, "turns": turns, "accepted": atomic.LoadInt64(&accepted), "backend_calls": briefCalls(calls)}
	// chain unforked
	lastOut := ""
	applied := int64(0)
	for _, bc := range calls {
		if bc.Err != "" {
			continue
		}
		if bc.Kind != "CreateGame" && bc.InID != lastOut {
			c.Violate("C16/hand-state-chain-forked", fmt.Sprintf("backend call #%d %s was applied to state %s but the latest state was %s: two actions were applied to the same turn", bc.N, bc.Kind, bc.InID, lastOut), w)
			return
		}
		lastOut = bc.OutID
		if _, ok := wagerKinds[bc.Kind]; ok {
			applied++
		}
	}
	if !settled {
		if turns == 0 {
			c.Inconclusive("hand did not reach a betting turn")
			return
		}
		c.Violate("C16/hand-did-not-settle", fmt.Sprintf("after %d turns of simultaneous actions the hand did not settle within 40 s", turns), w)
		return
	}
	if a := atomic.LoadInt64(&accepted); a != applied {
		c.Violate("C16/accepted-calls-differ-from-applied-steps", fmt.Sprintf("%d wager calls returned nil but the hand engine applied %d steps", a, applied), w)
		return
	}
	if e := atomic.LoadInt64(&accEvents); e != applied {
		c.Violate("C16/action-events-differ-from-applied-steps", fmt.Sprintf("%d action events for %d applied steps", e, applied), w)
		return
	}
	var sum int64
	for _, ps := range last.State.PlayerStates {
		sum += ps.Bankroll
	}
	if sum != total {
		c.Violate("C16/chips-not-conserved", fmt.Sprintf("bankrolls sum to %d after the hand, %d were brought in", sum, total), w)
		return
	}
	c.Count("C_turns", int64(turns))
	c.Count("C_accepted", applied)
	c.Feature("C:simultaneous-actions")
	if rapid > 0 {
		c.Feature("C:rapid-volley-before-publication")
		c.Count("C_rapid_volleys", int64(rapid))
	}
	c.Nontrivial()
	c.FP("C", fmt.Sprint(briefCalls(calls)))
	c.Sample(map[string]interface{}{"part": "C", "players": n, "turns_with_simultaneous_actions": turns, "accepted": applied, "backend_calls": len(calls)})
}

func c16Size(r *rand.Rand, gs *pokerface.GameState, p *pokerface.PlayerState, a string) int64 {
	switch a {
	case "bet":
		return gs.Status.MiniBet
	case "raise":
		return gs.Status.CurrentWager + gs.Status.PreviousRaiseSize
	}
	return 0
}

func briefCalls(cs []*h.BCall) []string {
	out := []string{}
	for _, c := range cs {
		out = append(out, fmt.Sprintf("#%d %s in=%s cp=%d out=%s err=%s", c.N, c.Kind, c.InID, c.InCP, c.OutID, c.Err))
	}
	return out
}

// ---- part D ---------------------------------------------------------------

// c16D: a batch update (leave one, seat one) on a full table is one step: concurrent reservations can never slip in
// between its two halves. Pure stress on the smallest table where the gap would matter.
func c16D(c *h.Ctx) {
	r := c.R
	seats := 2 + r.Intn(3)
	opts := pt.NewTableEngineOptions()
	te := pt.NewTableEngine(opts, pt.WithGameBackend(pt.NewNativeGameBackend()))
	setting := pt.TableSetting{TableID: "T", Meta: pt.TableMeta{CompetitionID: "C", Rule: "default", Mode: "ct", MaxDuration: 1 << 30, TableMaxSeatCount: seats, TableMinPlayerCount: 2, ActionTime: 10}, Blind: pt.TableBlindState{Level: 1, SB: 5, BB: 10}}
	if _, err := te.CreateTable(setting); err != nil {
		c.Inconclusive(err.Error())
		return
	}
	occ := make([]string, seats)
	for i := 0; i < seats; i++ {
		occ[i] = fmt.Sprintf("s%d", i)
		if err := te.PlayerReserve(pt.JoinPlayer{PlayerID: occ[i], RedeemChips: 10, Seat: i}); err != nil {
			c.Inconclusive(err.Error())
			return
		}
	}
	const rounds = 1500
	const intruders = 5
	for n := 0; n < rounds; n++ {
		seat := n % seats
		x := occ[seat]
		y := fmt.Sprintf("y%d", n)
		var wg sync.WaitGroup
		start := make(chan struct{})
		var uerr error
		zerr := make([]error, intruders)
		wg.Add(1)
		go func() {
			defer wg.Done()
			<-start
			_, uerr = te.UpdateTablePlayers([]pt.JoinPlayer{{PlayerID: y, RedeemChips: 10, Seat: -1}}, []string{x})
		}()
		for k := 0; k < intruders; k++ {
			wg.Add(1)
			go func(k int) {
				defer wg.Done()
				<-start
				zerr[k] = te.PlayerReserve(pt.JoinPlayer{PlayerID: fmt.Sprintf("z%d_%d", n, k), RedeemChips: 10, Seat: -1})
			}(k)
		}
		close(start)
		wg.Wait()
		w := map[string]interface{}{"seats": seats, "round": n, "leaving": x, "joining": y}
		t := te.GetTable()
		for k := range zerr {
			if zerr[k] == nil {
				c.Violate("C16/batch-update-not-atomic", fmt.Sprintf("round %d: the table was full; a batch update replaced %s by %s and at the same time an outside reservation succeeded: it slipped in between the leave and the join of the batch (update returned %v)", n, x, y, uerr), w)
				return
			}
		}
		if uerr != nil {
			c.Violate("C16/batch-update-not-atomic", fmt.Sprintf("round %d: replacing %s by %s on a full table failed with %v although no other call could change the membership", n, x, y, uerr), w)
			return
		}
		pi := h.PlayerIdx(t, y)
		if pi < 0 || len(t.State.PlayerStates) != seats {
			c.Violate("C16/batch-update-lost-player", fmt.Sprintf("round %d: after the update %s is seated=%v and the table has %d players on %d seats", n, y, pi >= 0, len(t.State.PlayerStates), seats), w)
			return
		}
		occ[t.State.PlayerStates[pi].Seat] = y
	}
	c.Count("D_rounds", rounds)
	c.Feature("D:batch-atomicity")
	c.Nontrivial()
	c.FP("D", c.Seed)
	c.Sample(map[string]interface{}{"part": "D", "seats": seats, "rounds": rounds, "concurrent_reservations_per_round": intruders})
}

// ---- race classification --------------------------------------------------

// (PlayerRedeemChips is not listed: it publishes its events after releasing the lock, only its bankroll change is serialised)
var teLocked = []string{"UpdateTablePlayers", "PlayerReserve", "PlayersLeave", "PlayerReady", "PlayerPay", "PlayerBet", "PlayerRaise", "PlayerCall", "PlayerAllin", "PlayerCheck", "PlayerFold", "PlayerPass", "tableGameOpen", "updateCurrentPlayerGameStatistics"}
var smLocked = []string{"AssignSeats", "RandomAssignSeats", "RemoveSeats", "JoinPlayers", "UpdatePlayerHasChips", "InitPositions", "RotatePositions", "IsPlayerActive", "ListPlayerSeatsFromDealer"}

// ---- part F (round 7) -------------------------------------------------------
// c16F: many callers at the same time, but on different objects: 4..8 tables and bare seat managers of the same size
// in one process, each with exactly one caller, all busy at once. Every object must behave exactly as if it were alone
// (its own sequential model after every call): a buffer, cache or default object shared between tables or seat
// managers shows up as a double booking, a lost player or a seat map out of step.
func c16F(c *h.Ctx) {
	r := c.R
	k := 4 + r.Intn(5)
	seats := 2 + r.Intn(9)
	rounds := 120 + r.Intn(120)
	var mu sync.Mutex
	sig, det := "", ""
	var wit interface{}
	fail := func(s, d string, w interface{}) {
		mu.Lock()
		if sig == "" {
			sig, det, wit = s, d, w
		}
		mu.Unlock()
	}
	failed := func() bool { mu.Lock(); defer mu.Unlock(); return sig != "" }
	var ops, createErr int64
	start := make(chan struct{})
	var wg sync.WaitGroup
	for w := 0; w < k; w++ {
		wr := rand.New(rand.NewSource(r.Int63()))
		wg.Add(1)
		if w%2 == 0 {
			// a bare seat manager
			go func(w int) {
				defer wg.Done()
				m := sm.NewSeatManager(seats, []string{"default", "short_deck"}[wr.Intn(2)])
				model := map[string]int{}
				var hist []string
				nid := 0
				<-start
				for i := 0; i < rounds && !failed(); i++ {
					taken := map[int]bool{}
					for _, st := range model {
						taken[st] = true
					}
					free := seats - len(model)
					switch wr.Intn(4) {
					case 0, 1:
						n := 1 + wr.Intn(2)
						var ids []string
						for j := 0; j < n; j++ {
							ids = append(ids, fmt.Sprintf("w%d-r%d", w, nid))
							nid++
						}
						err := m.RandomAssignSeats(ids)
						hist = append(hist, fmt.Sprintf("random%v err=%v", ids, err))
						if (err == nil) != (free >= n) {
							fail("C16/one-caller-per-object/seat-manager-answer-differs-from-sequential-model", fmt.Sprintf("seat manager %d (%d seats, %d taken): random assignment of %d players returned %v", w, seats, len(model), n, err), hist)
							return
						}
						if err == nil {
							st := smSnap(m)
							for _, id := range ids {
								got := -1
								for seat, sp := range st.SeatData {
									if sp != nil && sp.ID == id {
										got = seat
									}
								}
								if got < 0 || got >= seats || taken[got] {
									fail("C16/one-caller-per-object/seat-manager-double-booking", fmt.Sprintf("seat manager %d: %s was given seat %d; seats held before the call: %v", w, id, got, model), hist)
									return
								}
								taken[got] = true
								model[id] = got
							}
						}
					case 2:
						id := fmt.Sprintf("w%d-r%d", w, nid)
						nid++
						seat := wr.Intn(seats)
						err := m.AssignSeats(map[string]int{id: seat})
						hist = append(hist, fmt.Sprintf("assign %s->%d err=%v", id, seat, err))
						if (err == nil) != !taken[seat] {
							fail("C16/one-caller-per-object/seat-manager-answer-differs-from-sequential-model", fmt.Sprintf("seat manager %d: assignment of seat %d (taken: %v) returned %v", w, seat, taken[seat], err), hist)
							return
						}
						if err == nil {
							model[id] = seat
						}
					default:
						if len(model) == 0 {
							continue
						}
						var ids []string
						for id := range model {
							ids = append(ids, id)
						}
						sort.Strings(ids)
						id := ids[wr.Intn(len(ids))]
						err := m.RemoveSeats([]string{id})
						hist = append(hist, fmt.Sprintf("remove %s err=%v", id, err))
						if err != nil {
							fail("C16/one-caller-per-object/seat-manager-answer-differs-from-sequential-model", fmt.Sprintf("seat manager %d: removal of seated %s returned %v", w, id, err), hist)
							return
						}
						delete(model, id)
					}
					atomic.AddInt64(&ops, 1)
					st := smSnap(m)
					seen := map[string]int{}
					for seat, sp := range st.SeatData {
						if sp != nil {
							seen[sp.ID] = seat
						}
					}
					if fmt.Sprint(seen) != fmt.Sprint(model) {
						fail("C16/one-caller-per-object/seat-manager-state-differs-from-sequential-model", fmt.Sprintf("seat manager %d holds %v, its only caller seated %v", w, seen, model), hist)
						return
					}
				}
			}(w)
			continue
		}
		// a table of its own engine
		go func(w int) {
			defer wg.Done()
			cfg := h.GenTable(wr, h.GenOpts{MinSeats: seats, MaxSeats: seats, MinPlayers: 2, DeepOnly: true, Modes: []string{"ct", "cash"}, Rules: []string{"default"}})
			cfg.Players = nil
			st := cfg.Setting(false)
			st.TableID = fmt.Sprintf("F%d", w)
			s, err := h.NewSim(h.SimConfig{Setting: st, Interval: 0, LightTrace: true, NoGateSpy: true}, wr.Int63())
			if err != nil {
				atomic.AddInt64(&createErr, 1)
				return
			}
			model := &c03Model{seats: seats, seatOf: map[string]int{}, isIn: map[string]bool{}}
			var hist []string
			nid := 0
			<-start
			for i := 0; i < rounds/3 && !failed(); i++ {
				free := seats - len(model.seatOf)
				switch wr.Intn(4) {
				case 0, 1:
					id := fmt.Sprintf("w%d-p%d", w, nid)
					nid++
					err := s.Reserve(id, -1, 1000)
					hist = append(hist, fmt.Sprintf("reserve %s random err=%v", id, err))
					if (err == nil) != (free >= 1) {
						fail("C16/one-caller-per-object/table-answer-differs-from-sequential-model", fmt.Sprintf("table %d (%d seats, %d taken): random-seat reservation returned %v", w, seats, len(model.seatOf), err), hist)
						return
					}
					if err == nil {
						got := seatOf(s.Table(), id)
						if got < 0 || got >= seats || model.taken(got) {
							fail("C16/one-caller-per-object/table-double-booking", fmt.Sprintf("table %d: %s was given seat %d; seats held before the call: %v", w, id, got, model.seatOf), hist)
							return
						}
						model.seatOf[id] = got
					}
				case 2:
					id := fmt.Sprintf("w%d-p%d", w, nid)
					nid++
					seat := wr.Intn(seats)
					err := s.Reserve(id, seat, 1000)
					hist = append(hist, fmt.Sprintf("reserve %s seat %d err=%v", id, seat, err))
					if (err == nil) != !model.taken(seat) {
						fail("C16/one-caller-per-object/table-answer-differs-from-sequential-model", fmt.Sprintf("table %d: reservation of seat %d (taken: %v) returned %v", w, seat, model.taken(seat), err), hist)
						return
					}
					if err == nil {
						model.seatOf[id] = seat
					}
				default:
					if len(model.seatOf) == 0 {
						continue
					}
					var ids []string
					for id := range model.seatOf {
						ids = append(ids, id)
					}
					sort.Strings(ids)
					id := ids[wr.Intn(len(ids))]
					err := s.Leave(id)
					hist = append(hist, fmt.Sprintf("leave %s err=%v", id, err))
					if err != nil {
						fail("C16/one-caller-per-object/table-answer-differs-from-sequential-model", fmt.Sprintf("table %d: departure of seated %s returned %v", w, id, err), hist)
						return
					}
					delete(model.seatOf, id)
					delete(model.isIn, id)
				}
				atomic.AddInt64(&ops, 1)
				// (the engine's auto seat-in group may seat a newcomer in by itself: the seated-in flags are not modelled)
				t := s.Table()
				for _, ps := range t.State.PlayerStates {
					if ps.IsIn {
						model.isIn[ps.PlayerID] = true
					}
				}
				if sg, d := c03Consistent(s, model); sg != "" && sg != "C03/seated-in-flag-differs" {
					fail("C16/one-caller-per-object/"+sg, fmt.Sprintf("table %d: %s", w, d), hist)
					return
				}
			}
		}(w)
	}
	close(start)
	wg.Wait()
	if sig != "" {
		c.Violate(sig, det, map[string]interface{}{"objects": k, "seats": seats, "history_of_the_failing_object": wit})
		return
	}
	if createErr > 0 {
		c.Inconclusive("table could not be created")
		return
	}
	c.Count("F_ops", ops)
	c.Feature("F:one-caller-per-object-many-objects-at-once")
	c.Nontrivial()
	c.FP("F", k, seats, rounds, c.Seed)
	c.Sample(map[string]interface{}{"part": "F", "objects": k, "seats": seats, "calls": ops})
}

func lockedEntry(stack []string, recv string, names []string) string {
	for _, f := range stack {
		if !strings.Contains(f, recv) {
			continue
		}
		for _, n := range names {
			if strings.HasSuffix(f, ")."+n) {
				return n
			}
		}
	}
	return ""
}

// ---- part E ---------------------------------------------------------------

// c16E: membership calls from several goroutines while the engine waits to retry a failed open (the retry loop gives
// the lock up while it sleeps). Whatever the retry then installs, every accepted call must still have had its
// effect: no player lost, none resurrected, bookkeeping of C03 intact.
func c16E(c *h.Ctx) {
	r := c.R
	cfg := h.GenTable(r, h.GenOpts{MinSeats: 6, MaxSeats: 9, MinPlayers: 3, DeepOnly: true, Modes: []string{"ct", "cash"}, Rules: []string{"default"}})
	cfg.Players = cfg.Players[:3]
	s, err := h.NewSim(h.SimConfig{Setting: cfg.Setting(false), Interval: 0, LightTrace: true}, r.Int63())
	if err != nil {
		c.Inconclusive(err.Error())
		return
	}
	for _, pl := range cfg.Players {
		if err := s.Reserve(pl.ID, pl.Seat, pl.Chips); err != nil {
			c.Inconclusive("reserve: " + err.Error())
			return
		}
	}
	s.Join(cfg.Players[0].ID) // only one seated-in player: the first open fails and the engine waits 3 s to retry
	s.TE.StartTableGame()
	e, ok := s.WaitFor(5*time.Second, func(e *h.Ev) bool { return e.Kind == h.EvSetup }, nil)
	if !ok {
		c.Inconclusive("no set-up")
		return
	}
	s.SignalAll(h.SetupIDs(e.Setup))
	if _, ok := s.WaitFor(5*time.Second, func(e *h.Ev) bool { return e.Kind == h.EvGateFire }, nil); !ok {
		c.Inconclusive("gate did not fire")
		return
	}
	time.Sleep(time.Duration(200+r.Intn(1500)) * time.Millisecond)
	model := &c03Model{seats: cfg.Seats, seatOf: map[string]int{}, isIn: map[string]bool{}}
	for _, pl := range cfg.Players {
		model.seatOf[pl.ID] = pl.Seat
	}
	model.isIn[cfg.Players[0].ID] = true
	free := []int{}
	for seat := 0; seat < cfg.Seats; seat++ {
		if !model.taken(seat) {
			free = append(free, seat)
		}
	}
	r.Shuffle(len(free), func(i, j int) { free[i], free[j] = free[j], free[i] })
	type res struct {
		kind, id string
		seat     int
		err      error
	}
	var mu sync.Mutex
	var out []res
	var wg sync.WaitGroup
	start := make(chan struct{})
	run := func(kind, id string, seat int, fn func() error) {
		wg.Add(1)
		go func() {
			defer wg.Done()
			<-start
			err := fn()
			mu.Lock()
			out = append(out, res{kind, id, seat, err})
			mu.Unlock()
		}()
	}
	nNew := 1 + r.Intn(3)
	if nNew > len(free) {
		nNew = len(free)
	}
	for k := 0; k < nNew; k++ {
		id, seat := fmt.Sprintf("late%d", k), free[k]
		run("reserve", id, seat, func() error {
			return s.TE.PlayerReserve(pt.JoinPlayer{PlayerID: id, RedeemChips: 500, Seat: seat})
		})
	}
	leaver := cfg.Players[2].ID
	if r.Intn(2) == 0 {
		run("leave", leaver, -1, func() error { return s.TE.PlayersLeave([]string{leaver}) })
	}
	sitter := cfg.Players[1].ID
	run("join", sitter, -1, func() error { return s.TE.PlayerJoin(sitter) })
	close(start)
	wg.Wait()
	for _, x := range out {
		if x.err != nil {
			continue
		}
		switch x.kind {
		case "reserve":
			model.seatOf[x.id] = x.seat
		case "leave":
			delete(model.seatOf, x.id)
			delete(model.isIn, x.id)
		case "join":
			model.isIn[x.id] = true
		}
	}
	// the retry (at most 3.3 s away) opens the hand now that two players are seated in
	opened := false
	s.WaitFor(9*time.Second, func(e *h.Ev) bool {
		opened = e.Kind == h.EvTable && e.T != nil && e.T.State.Status == pt.TableStateStatus_TableGameOpened
		return opened
	}, nil)
	time.Sleep(2 * time.Millisecond)
	w := map[string]interface{}{"cfg": cfg, "calls": fmt.Sprintf("%+v", out), "opened": opened, "trace": s.TraceTail(30)}
	if sig, det := c03Consistent(s, model); sig != "" {
		c.Violate("C16/membership-call-during-open-retry-undone/"+sig, "calls accepted while the engine waited to retry a failed open: "+det, w)
		return
	}
	c.Feature("E:membership-calls-during-open-retry")
	if opened {
		c.Feature("E:retry-opened-the-hand")
	}
	c.Nontrivial()
	c.FP("E", fmt.Sprintf("%+v", cfg), len(out))
	c.Sample(map[string]interface{}{"part": "E", "calls_during_the_wait": len(out), "retry_opened_the_hand": opened})
}

func c16RaceClassify(blk string) string {
	st := h.RaceAccessStacks(blk)
	a, b := lockedEntry(st[0], "(*tableEngine)", teLocked), lockedEntry(st[1], "(*tableEngine)", teLocked)
	if a != "" && b != "" {
		if a > b {
			a, b = b, a
		}
		return "C16/race/engine-lock-does-not-order/" + a + "+" + b
	}
	a, b = lockedEntry(st[0], "(*seatManager)", smLocked), lockedEntry(st[1], "(*seatManager)", smLocked)
	if a != "" && b != "" {
		if a > b {
			a, b = b, a
		}
		return "C16/race/seat-manager-lock-does-not-order/" + a + "+" + b
	}
	return ""
}

func init() {
	h.Register(&h.Check{
		ID:        "C16",
		Level:     "exploration",
		Technique: "runtime monitoring under the Go race detector: concurrent membership / seat-manager / game-action storms against the real code; recorded call histories checked for linearizability with porcupine against a sequential seat table, backend call chain checked for forks, race reports classified by whether both access stacks lie in sections serialised by the same lock",
		Rule: "case i: i mod 3 = 0 -> part A (8..40 concurrent PlayerReserve fixed/random/re-buy, PlayersLeave, single-kind UpdateTablePlayers on one table, few hot seats), 1 -> part B (8..40 concurrent seat-manager mutators), 2 -> part C, except every twelfth case -> part D (every 24th case: part E, membership calls inside the open retry wait; every 24th: part F, 4..8 tables and bare seat managers of one size in one process, one caller each, all busy at once, each judged against its own sequential model after every call) (1500 rounds on a full 2..4-seat table: one batch update replacing a player while five outside reservations hammer; none may ever succeed and the update may never fail); part C (one hand in which at every turn all participants fire fold/call/check/allin/raise/pass at once and the current player three legal actions); " +
			"non-trivial = the storm had overlapping calls (A: at least one pair of calls overlapping in time); distinct = fingerprint of the recorded history",
		Assumptions: []string{
			"linearizability is judged on histories of at most 40 operations; a checker timeout is inconclusive",
			"race reports with one side in syncsaga/timebank/the hand's updater goroutine/unlocked API methods are the code's baseline and are only counted",
			"the seat a random reservation obtained is observed through the reserved-player callback (part A) or the final state (part B; histories where such a player has left again are only checked for double booking)",
		},
		Cases:         func(tier string) int { return map[string]int{"quick": 600, "thorough": 8000}[tier] },
		MinNontrivial: func(tier string) int { return map[string]int{"quick": 300, "thorough": 4000}[tier] },
		RequiredFeatures: func(string) []string {
			return []string{"A:storm", "B:storm", "C:simultaneous-actions", "C:rapid-volley-before-publication", "D:batch-atomicity", "E:membership-calls-during-open-retry", "E:retry-opened-the-hand", "F:one-caller-per-object-many-objects-at-once"}
		},
		CaseTimeout:  120e9,
		Race:         true,
		RaceClassify: c16RaceClassify,
		Run: func(c *h.Ctx) {
			if c.Case%12 == 11 {
				c16D(c)
				return
			}
			if c.Case%24 == 5 {
				c16E(c)
				return
			}
			if c.Case%24 == 17 {
				c16F(c)
				return
			}
			switch c.Case % 3 {
			case 0:
				c16A(c)
			case 1:
				c16B(c)
			default:
				c16C(c)
			}
		},
	})
}
