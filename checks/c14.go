package checks

import (
	"fmt"

	pt "github.com/weedbox/pokertable"

	h "verif/harness"
)

// C14 — per-hand player statistics describe what the player actually did.

type c14Cnt struct {
	actions, calls, checks, raises int
	fold                           bool
	foldRound                      string
}

func c14AfterHand(p *Play, hd *h.Hand) {
	c := p.C
	if hd.Settled == nil || hd.Opened == nil {
		return
	}
	roster := hd.Roster()
	in := map[string]bool{}
	for _, id := range roster {
		in[id] = true
	}
	cnt := map[string]*c14Cnt{}
	for _, id := range roster {
		cnt[id] = &c14Cnt{}
	}
	line := []string{}
	for _, a := range hd.Acts {
		if a.Err != "" {
			continue
		}
		k := cnt[a.PID]
		if k == nil {
			continue
		}
		switch a.Act {
		case "bet", "raise", "call", "allin", "check", "fold":
			k.actions++
			line = append(line, fmt.Sprintf("%s:%s@%s", a.PID, a.Act, a.Round))
		}
		switch a.Act {
		case "call":
			k.calls++
		case "check":
			k.checks++
		case "raise":
			k.raises++
		case "fold":
			k.fold = true
			k.foldRound = a.Round
		}
	}
	st := hd.Settled.T
	w := func() interface{} {
		m := p.witness().(map[string]interface{})
		m["line"] = line
		stats := map[string]pt.TablePlayerGameStatistics{}
		for _, ps := range st.State.PlayerStates {
			stats[ps.PlayerID] = ps.GameStatistics
		}
		m["statistics"] = stats
		return m
	}
	threeBet := []string{}
	for _, ps := range st.State.PlayerStates {
		g := ps.GameStatistics
		k := cnt[ps.PlayerID]
		if k == nil {
			// not dealt in (or arrived meanwhile): nothing may be recorded
			if g != pt.NewPlayerGameStatistics() {
				c.Violate("C14/statistics-on-player-not-dealt-in", fmt.Sprintf("hand %d: %s was not dealt in but carries %+v", p.HandNo, ps.PlayerID, g), w())
				return
			}
			continue
		}
		if g.ActionTimes != k.actions {
			c.Violate("C14/action-count", fmt.Sprintf("hand %d: %s had %d wager actions accepted, statistics say %d", p.HandNo, ps.PlayerID, k.actions, g.ActionTimes), w())
			return
		}
		if g.CallTimes != k.calls {
			c.Violate("C14/call-count", fmt.Sprintf("hand %d: %s had %d calls accepted, statistics say %d", p.HandNo, ps.PlayerID, k.calls, g.CallTimes), w())
			return
		}
		if g.CheckTimes != k.checks {
			c.Violate("C14/check-count", fmt.Sprintf("hand %d: %s had %d checks accepted, statistics say %d", p.HandNo, ps.PlayerID, k.checks, g.CheckTimes), w())
			return
		}
		if g.RaiseTimes > g.ActionTimes || g.RaiseTimes < k.raises {
			c.Violate("C14/raise-count", fmt.Sprintf("hand %d: %s: raise times %d with %d actions of which %d were raises", p.HandNo, ps.PlayerID, g.RaiseTimes, g.ActionTimes, k.raises), w())
			return
		}
		if g.IsFold != k.fold || (k.fold && g.FoldRound != k.foldRound) || (!k.fold && g.FoldRound != "") {
			c.Violate("C14/fold-flag-or-round", fmt.Sprintf("hand %d: %s folded=%v in %q, statistics say fold=%v round=%q", p.HandNo, ps.PlayerID, k.fold, k.foldRound, g.IsFold, g.FoldRound), w())
			return
		}
		pairs := []struct {
			name        string
			did, chance bool
		}{
			{"vpip", g.IsVPIP, g.IsVPIPChance}, {"pfr", g.IsPFR, g.IsPFRChance}, {"ats", g.IsATS, g.IsATSChance},
			{"3-bet", g.Is3B, g.Is3BChance}, {"fold-to-3-bet", g.IsFt3B, g.IsFt3BChance}, {"check-raise", g.IsCheckRaise, g.IsCheckRaiseChance},
			{"c-bet", g.IsCBet, g.IsCBetChance}, {"fold-to-c-bet", g.IsFtCB, g.IsFtCBChance}, {"showdown-win", g.IsShowdownWinning, g.ShowdownWinningChance},
		}
		for _, pr := range pairs {
			if pr.did && !pr.chance {
				c.Violate("C14/did-without-chance/"+pr.name, fmt.Sprintf("hand %d: %s has the %s flag without the matching chance flag", p.HandNo, ps.PlayerID, pr.name), w())
				return
			}
			if pr.did {
				c.Feature("flag:" + pr.name)
			}
			if pr.chance {
				c.Feature("chance:" + pr.name)
			}
		}
		if g.Is3B {
			threeBet = append(threeBet, ps.PlayerID)
		}
		if k.fold {
			c.Feature("fold")
		}
	}
	if len(threeBet) > 1 {
		c.Violate("C14/two-players-hold-the-3-bet-flag", fmt.Sprintf("hand %d: %v", p.HandNo, threeBet), w())
		return
	}
	// cleared between hands
	for _, ps := range p.SS.S.Table().State.PlayerStates {
		if ps.GameStatistics != pt.NewPlayerGameStatistics() {
			c.Violate("C14/statistics-not-cleared-between-hands", fmt.Sprintf("after hand %d: %s still carries %+v", p.HandNo, ps.PlayerID, ps.GameStatistics), w())
			return
		}
	}
	c.Count("hands", 1)
	c.Count("actions", int64(len(line)))
	raises := 0
	for _, k := range cnt {
		raises += k.raises
	}
	if raises >= 2 {
		c.Feature("re-raised-pot")
	}
	if len(line) >= 3 {
		c.Nontrivial()
	}
	c.FP(fmt.Sprint(line))
}

func init() {
	h.Register(&h.Check{
		ID:        "C14",
		Level:     "exploration",
		Technique: "runtime monitoring: the driver counts the wager actions it had accepted per player and compares with the statistics block of every settled snapshot; flag implications and the reset between hands are asserted on every hand",
		Rule: "case = one generated table playing 6..13 hands with random / aggressive / passive policies (3-bet and 4-bet lines, fold-outs, all-ins), sitting-out and busted players in the player list, busts with re-buys; " +
			"non-trivial = a table with a hand of at least three accepted wager actions; distinct = fingerprint of the betting lines",
		Assumptions: []string{"'raises never exceed actions' and 'at least the accepted raise calls' bound the raise counter (a bet or all-in counts as a raise only when it makes the player the raiser)", "the last action of a hand cannot race settlement: the updater takes the engine lock before it publishes"},
		Cases:       func(tier string) int { return map[string]int{"quick": 400, "thorough": 6000}[tier] },
		MinNontrivial: func(tier string) int {
			return map[string]int{"quick": 250, "thorough": 4000}[tier]
		},
		RequiredFeatures: func(string) []string {
			return []string{"fold", "re-raised-pot", "flag:3-bet", "chance:3-bet", "refused-out-of-turn:fold"}
		},
		CaseTimeout: 200e9,
		Run: func(c *h.Ctx) {
			po := PlayOpts{
				Hands:    6 + c.R.Intn(8),
				Churn:    Churn{BetweenP: 0.4, Rebuy: true, BuyIn: true, Leave: true, SitOut: true, ResumePaused: true, MidJoin: true, MidP: 0.05},
				Gen:      h.GenOpts{MinPlayers: 2, DeepOnly: c.R.Intn(3) > 0},
				Policies: []string{"random", "aggro", "aggro", "callstation", "nit", "maniac"},
			}
			probe := func(p *Play, e *h.Ev, gp int, pid string) bool {
				// refused actions (out of turn) must leave no statistics behind
				if p.R().Intn(3) == 0 {
					t := e.T
					var others []string
					for i := range t.State.GamePlayerIndexes {
						if id := h.PidOf(t, i); id != pid {
							others = append(others, id)
						}
					}
					if len(others) > 0 {
						who := others[p.R().Intn(len(others))]
						act := []string{"fold", "fold", "call", "check", "raise"}[p.R().Intn(5)]
						if err := h.DoAction(p.SS.S.TE, who, act, 50); err != nil {
							c.Feature("refused-out-of-turn:" + act)
						}
					}
				}
				return true
			}
			p := RunPlay(c, po, &PlayMon{AfterHand: c14AfterHand, BeforeAct: probe})
			if p == nil {
				return
			}
			if p.Stalled && !c.Failed() {
				c.InconclusiveW(fmt.Sprintf("foreign: hand %d did not settle within the watchdog", p.HandNo), p.witness())
				return
			}
			var line []string
			if n := len(p.SS.Hands); n > 0 {
				for _, a := range p.SS.Hands[n-1].Acts {
					if a.Err == "" && wagerActs[a.Act] {
						line = append(line, a.PID+":"+a.Act)
					}
				}
			}
			c.Sample(map[string]interface{}{"cfg": p.Cfg, "hands": len(p.SS.Hands), "last_hand_line": line})
		},
	})
}
