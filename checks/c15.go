package checks

import (
	"fmt"
	"time"

	pt "github.com/weedbox/pokertable"

	h "verif/harness"
)

// C15 — the published action deadline matches the turn.
//
// The engine computes the deadline from its own clock read; the monitor brackets that read between the wall
// time of the harness call that caused the state (lower bound) and the wall time at which the callback delivered
// the snapshot (upper bound). Load widens the bracket, it cannot produce a false alarm.

func c15Run(c *h.Ctx) {
	r := c.R
	at := []int{0, 1, 7, 30, 3600}[r.Intn(5)]
	slow := c.Case%4 == 0 // some cases let players think for more than a second, so that a stale deadline becomes visible
	po := PlayOpts{
		Hands:    3 + r.Intn(4),
		Churn:    Churn{BetweenP: 0.15, Rebuy: true, ResumePaused: true},
		Gen:      h.GenOpts{MinPlayers: 2, MaxSeats: 6, DeepOnly: true, ActionTime: at},
		Policies: []string{"aggro", "random", "callstation"},
	}
	if at == 0 {
		po.Gen.ZeroActionTime = true
	}
	var lastCallWall int64
	seenState := map[string]bool{}
	thinks := 0
	exts := 0
	mon := &PlayMon{}
	var isReleased func() bool
	mon.OnEvent = func(p *Play, e *h.Ev) {
		if isReleased != nil && isReleased() && e.Kind == h.EvState && e.Name == pt.TableStateEvent_GameSettled {
			p.StopNow = true // a released table plays its hand out and then does nothing more
		}
		if e.Kind == h.EvCall {
			lastCallWall = e.Wall
			return
		}
		if e.Kind != h.EvTable || e.T == nil || e.T.State.GameState == nil || c.Failed() {
			return
		}
		t := e.T
		gs := t.State.GameState
		w := func() interface{} {
			m := p.witness().(map[string]interface{})
			m["snapshot"] = e.Brief()
			return m
		}
		// only the first publication of a hand state is a request (extensions and membership calls re-publish it)
		key := fmt.Sprintf("%s/%d", gs.GameID, gs.UpdatedAt)
		if seenState[key] {
			return
		}
		seenState[key] = true
		switch gs.Status.CurrentEvent {
		case "RoundStarted":
			if t.State.Status != pt.TableStateStatus_TableGamePlaying {
				return
			}
			cp := gs.Status.CurrentPlayer
			if cp < 0 || cp >= len(gs.Players) {
				return
			}
			pl := gs.Players[cp]
			wager := len(pl.AllowedActions) > 0
			for _, a := range pl.AllowedActions {
				if !map[string]bool{"call": true, "raise": true, "allin": true, "check": true, "fold": true, "bet": true}[a] {
					wager = false
				}
			}
			if !wager || pl.Acted {
				return
			}
			lo := time.Unix(0, lastCallWall).Unix() + int64(t.Meta.ActionTime)
			hi := time.Unix(0, e.Wall).Unix() + int64(t.Meta.ActionTime)
			got := t.State.CurrentActionEndAt
			if got < lo || got > hi {
				sig := "C15/deadline-not-request-time-plus-action-time"
				if got < lo {
					sig += "/stale-or-early"
				} else {
					sig += "/late"
				}
				if pl.DidAction != "" {
					sig += "/player-asked-again-in-round"
				}
				c.Violate(sig, fmt.Sprintf("hand %d %s: player %s (entry %d) is asked to act, action time %d s, published deadline %d, expected within [%d, %d]", t.State.GameCount, gs.Status.Round, h.PidOf(t, cp), cp, t.Meta.ActionTime, got, lo, hi), w())
				return
			}
			c.Count("turn_deadlines_checked", 1)
			if pl.DidAction != "" {
				c.Feature("asked-again-in-round")
			}
		case "RoundClosed":
			if t.State.CurrentActionEndAt != 0 {
				c.Violate("C15/deadline-not-cleared-at-round-close", fmt.Sprintf("hand %d %s closed but the deadline is still %d", t.State.GameCount, gs.Status.Round, t.State.CurrentActionEndAt), w())
				return
			}
			c.Count("round_close_checked", 1)
		}
	}
	releaseAt := -1
	if c.Case%8 == 3 {
		releaseAt = 1 + r.Intn(3) // the table is released while this hand runs: it is played out, and stamped, like any other
	}
	nextFault := c.Case%8 == 5 // the backend fails one automatic next-round step: the closed round's deadline is cleared all the same
	faulted := false
	mon.OnStart = func(p *Play) {
		if nextFault {
			p.SS.Rig.Fault = func(n int, kind string) bool {
				if kind == "Next" && !faulted && n > 12 {
					faulted = true
					return true
				}
				return false
			}
		}
	}
	released := false
	isReleased = func() bool { return released }
	mon.BeforeAct = func(p *Play, e *h.Ev, gp int, pid string) bool {
		s := p.SS.S
		if p.HandNo == releaseAt && !released {
			released = true
			s.TE.ReleaseTable()
			c.Feature("released-while-the-hand-runs")
		}
		if slow && thinks < 3 && r.Intn(4) == 0 {
			thinks++
			c.Feature("player-thought-for-more-than-a-second")
			time.Sleep(time.Duration(1100+r.Intn(600)) * time.Millisecond)
		}
		if r.Intn(4) == 0 {
			n := 1 + r.Intn(3)
			for k := 0; k < n && !c.Failed(); k++ {
				before := s.TE.GetTable().State.CurrentActionEndAt
				d := []int{1, 5, 30, 0, 120}[r.Intn(5)]
				got, err := s.TE.PlayerExtendActionDeadline(pid, d)
				after := s.TE.GetTable().State.CurrentActionEndAt
				exts++
				late := time.Now().Unix() > before
				if late {
					c.Feature("extension-after-expiry")
				}
				if err != nil || got != before+int64(d) || after != got {
					sig := "C15/extension-not-exactly-requested-seconds"
					if late {
						sig += "/after-expiry"
					}
					c.Violate(sig, fmt.Sprintf("deadline %d extended by %d s: returned %d (err %v), published %d, expected %d", before, d, got, err, after, before+int64(d)), p.witness())
					return false
				}
				c.Feature("extension")
				if k > 0 {
					c.Feature("repeated-extension")
				}
			}
		}
		return true
	}
	mon.AfterHand = func(p *Play, hd *h.Hand) {
		if v := p.SS.S.TE.GetTable().State.CurrentActionEndAt; v != 0 {
			c.Violate("C15/deadline-not-cleared-between-hands", fmt.Sprintf("after hand %d the deadline is %d", p.HandNo, v), p.witness())
		}
		c.Count("hands", 1)
	}
	p := RunPlay(c, po, mon)
	if p == nil {
		return
	}
	c.FP(fmt.Sprintf("%+v", p.Cfg), c.Seed)
	if faulted && !c.Failed() {
		// the hand stops at the failed step (the engine does not retry its own steps); the round it closed has no
		// deadline any more
		time.Sleep(5 * time.Millisecond)
		if v := p.SS.S.TE.GetTable().State.CurrentActionEndAt; v != 0 {
			c.Violate("C15/deadline-not-cleared-at-round-close/next-round-step-failed", fmt.Sprintf("the betting round closed and the backend failed the next-round step: the table still publishes the deadline %d", v), p.witness())
			return
		}
		c.Feature("round-closed-with-failing-next-step")
		c.Nontrivial()
		return
	}
	if released && p.CurHand != nil && p.CurHand.Settled != nil {
		p.Stalled = false
	}
	if p.Stalled && !c.Failed() {
		c.InconclusiveW(fmt.Sprintf("foreign: hand %d did not settle within the watchdog", p.HandNo), p.witness())
		return
	}
	c.Feature(fmt.Sprintf("action-time=%d", p.tableNow().Meta.ActionTime)) // what the engine was really configured with
	c.Nontrivial()
	c.Sample(map[string]interface{}{"cfg": p.Cfg, "action_time": p.tableNow().Meta.ActionTime, "hands": len(p.SS.Hands), "extensions": exts, "slow_turns": thinks})
}

func init() {
	h.Register(&h.Check{
		ID:        "C15",
		Level:     "exploration",
		Technique: "runtime monitoring: every RoundStarted / RoundClosed snapshot and every extension call of generated tables is checked against a wall-clock bracket measured around the engine's own clock read",
		Rule: "case = one generated table (action time 0, 1, 7, 30 or 3600 s) playing 3..6 hands; a quarter of the cases let players think 1.1..1.7 s at some turns (re-opened betting rounds then expose a stale deadline, short action times expire before an extension); at a quarter of the turns 1..3 extensions of 0/1/5/30/120 s are requested; " +
			"every case is non-trivial (it checks deadlines at turns); distinct = config + seed",
		Assumptions: []string{"the request time is bracketed by [wall time of the harness call that produced the state, wall time at which the snapshot was delivered], in whole seconds as the engine publishes them"},
		Cases:       func(tier string) int { return map[string]int{"quick": 320, "thorough": 5000}[tier] },
		MinNontrivial: func(tier string) int {
			return map[string]int{"quick": 280, "thorough": 4500}[tier]
		},
		RequiredFeatures: func(string) []string {
			return []string{"extension", "repeated-extension", "extension-after-expiry", "asked-again-in-round", "player-thought-for-more-than-a-second", "action-time=0", "action-time=1", "action-time=7", "action-time=30", "action-time=3600", "released-while-the-hand-runs", "round-closed-with-failing-next-step"}
		},
		CaseTimeout: 200e9,
		InProc:      4,
		Run:         c15Run,
	})
}
