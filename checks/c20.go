package checks

import (
	"encoding/json"
	"fmt"
	"math/rand"
	"reflect"
	"regexp"
	"sync"
	"time"

	pt "github.com/weedbox/pokertable"
	"github.com/weedbox/pokertable/actor"

	h "verif/harness"
)

// C20 — observers never see hidden cards, and each actor gets its own copy.

// scribbler is a runner that vandalises the table it is given (its own copy, if the adapter does its job).
type scribbler struct {
	mu   sync.Mutex
	ptrs []*pt.Table
}

func (s *scribbler) SetActor(a actor.Actor) {}
func (s *scribbler) UpdateTableState(t *pt.Table) error {
	s.mu.Lock()
	s.ptrs = append(s.ptrs, t)
	s.mu.Unlock()
	// overwrite every number and every string reachable from the copy this actor was given (in place, so that
	// anything still shared with the engine or with another actor's copy shows the sentinel there)
	scribbleAll(reflect.ValueOf(t), 0)
	return nil
}

const scribbleInt, scribbleStr = -987654321, "scribbled"

// a number is only the scribbler's when it stands as a JSON value of its own (game ids are hex strings with dashes)
var scribbleRe = regexp.MustCompile(`[:\[,]-987654321[,\]}]|"scribbled"`)

func scribbleAll(v reflect.Value, depth int) {
	if depth > 40 {
		return
	}
	switch v.Kind() {
	case reflect.Ptr, reflect.Interface:
		if !v.IsNil() {
			scribbleAll(v.Elem(), depth+1)
		}
	case reflect.Struct:
		for i := 0; i < v.NumField(); i++ {
			if v.Type().Field(i).PkgPath == "" { // exported
				scribbleAll(v.Field(i), depth+1)
			}
		}
	case reflect.Slice, reflect.Array:
		for i := 0; i < v.Len(); i++ {
			scribbleAll(v.Index(i), depth+1)
		}
	case reflect.Map:
		for _, k := range v.MapKeys() {
			e := v.MapIndex(k)
			switch e.Kind() {
			case reflect.Ptr, reflect.Interface, reflect.Slice, reflect.Map:
				scribbleAll(e, depth+1)
			case reflect.Int, reflect.Int64, reflect.Int32:
				v.SetMapIndex(k, reflect.ValueOf(scribbleInt).Convert(e.Type()))
			case reflect.String:
				v.SetMapIndex(k, reflect.ValueOf(scribbleStr).Convert(e.Type()))
			}
		}
	case reflect.Int, reflect.Int64, reflect.Int32:
		if v.CanSet() {
			v.SetInt(scribbleInt)
		}
	case reflect.String:
		if v.CanSet() {
			v.SetString(scribbleStr)
		}
	}
}

type seenView struct {
	who  string
	ptr  *pt.Table
	json []byte
	n    int
}

func scribbled(t *pt.Table) string {
	b, _ := json.Marshal(t)
	return scribbledJSON(b)
}

func scribbledJSON(b []byte) string {
	if loc := scribbleRe.FindIndex(b); loc != nil {
		lo, hi := loc[0]-60, loc[1]+30
		if lo < 0 {
			lo = 0
		}
		if hi > len(b) {
			hi = len(b)
		}
		return "the scribbler's mark at ..." + string(b[lo:hi]) + "..."
	}
	return ""
}

func c20Run(c *h.Ctx) {
	r := c.R
	cfg := h.GenTable(r, h.GenOpts{MinSeats: 2, MaxSeats: 7, MinPlayers: 2, Modes: []string{"ct", "cash"}, DeepOnly: r.Intn(2) == 0})
	var mu sync.Mutex
	var views []seenView
	var actors []actor.Actor
	var names []string
	nfan := 0
	fail := func(sig, detail string, w interface{}) {
		c.Violate(sig, detail, w)
	}
	var s *h.Sim
	witness := func() interface{} {
		return map[string]interface{}{"cfg": cfg, "actor_order": names, "trace": s.TraceTail(30)}
	}
	var lastEngineDeck int
	fan := func(t *pt.Table) {
		mu.Lock()
		nfan++
		n := nfan
		mu.Unlock()
		// what the engine holds before the fan-out (private parts only: other goroutines may touch the rest)
		deckBefore, holeBefore := -1, ""
		if gs := t.State.GameState; gs != nil {
			deckBefore = len(gs.Meta.Deck)
			for _, p := range gs.Players {
				holeBefore += fmt.Sprint(p.HoleCards)
			}
		}
		mu.Lock()
		start := len(views)
		mu.Unlock()
		for _, a := range actors {
			a.GetTable().UpdateTableState(t)
		}
		mu.Lock()
		defer mu.Unlock()
		if c.Failed() {
			return
		}
		// what an actor can read back through its adapter is its own (for observers: filtered) copy as well
		for i, a := range actors {
			ags := a.GetTable().GetGameState()
			if ags == nil {
				continue
			}
			if ags == t.State.GameState {
				fail("C20/actor-was-given-the-engines-table/through-its-adapter", fmt.Sprintf("the adapter of %s answers GetGameState() with the engine's own hand state object (status %s)", names[i], t.State.Status), witness())
				return
			}
			// (what the accessor shows at a given instant is not judged: the adapter stores a delivery before the runner
			// has filtered it, so a reader racing with a delivery can see either; only object identity is checked)
		}
		// the engine's own table is untouched
		if why := scribbled(t); why != "" {
			fail("C20/actor-changed-the-engines-table", fmt.Sprintf("after the fan-out of snapshot %d the engine's own table shows %s", n, why), witness())
			return
		}
		if gs := t.State.GameState; gs != nil && deckBefore >= 0 {
			hole := ""
			for _, p := range gs.Players {
				hole += fmt.Sprint(p.HoleCards)
			}
			if len(gs.Meta.Deck) != deckBefore || (hole != holeBefore && gs.UpdatedAt != 0 && false) {
				fail("C20/actor-changed-the-engines-table", fmt.Sprintf("the engine's deck had %d cards before the fan-out of snapshot %d (status %s) and %d after", deckBefore, n, t.State.Status, len(gs.Meta.Deck)), witness())
				return
			}
			lastEngineDeck = len(gs.Meta.Deck)
		}
		// every actor got its own object
		seen := map[*pt.Table]string{}
		for _, v := range views[start:] {
			if v.ptr == t {
				fail("C20/actor-was-given-the-engines-table", fmt.Sprintf("%s received the engine's own table object (status %s)", v.who, t.State.Status), witness())
				return
			}
			if o, dup := seen[v.ptr]; dup {
				fail("C20/two-actors-share-one-copy", fmt.Sprintf("%s and %s received the same table object", o, v.who), witness())
				return
			}
			seen[v.ptr] = v.who
		}
	}
	rig := h.NewRigBackend()
	rig.DeckFn = h.SeededDeck(rand.New(rand.NewSource(r.Int63())))
	var err error
	s, err = h.NewSim(h.SimConfig{Setting: cfg.Setting(false), Interval: 0, Backend: rig, OnSync: fan}, r.Int63())
	if err != nil {
		c.Inconclusive(err.Error())
		return
	}
	fullDeck := 52
	if cfg.Rule == "short_deck" {
		fullDeck = 36
	}
	record := func(who string) func(t *pt.Table) {
		return func(t *pt.Table) {
			b, _ := json.Marshal(t)
			mu.Lock()
			views = append(views, seenView{who: who, ptr: t, json: b, n: nfan})
			failed := c.Failed()
			mu.Unlock()
			if failed {
				return
			}
			if why := scribbledJSON(b); why != "" {
				mu.Lock()
				fail("C20/one-actors-changes-reached-another", fmt.Sprintf("%s was shown a table with %s (made by another actor on what should be its private copy)", who, why), witness())
				mu.Unlock()
				return
			}
			gs := t.State.GameState
			if gs == nil {
				return
			}
			switch who {
			case "observer":
				bad := ""
				if len(gs.Meta.Deck) != 0 {
					bad = fmt.Sprintf("the deck (%d cards)", len(gs.Meta.Deck))
				}
				if len(gs.Status.Burned) != 0 {
					bad = fmt.Sprintf("the burned cards %v", gs.Status.Burned)
				}
				closed := gs.Status.CurrentEvent == "GameClosed"
				for _, p := range gs.Players {
					hidden := !closed || p.Fold
					if hidden && (len(p.HoleCards) != 0 || p.Combination != nil) {
						bad = fmt.Sprintf("hole cards / hand strength of entry %d (%v, folded=%v, hand closed=%v)", p.Idx, p.HoleCards, p.Fold, closed)
					}
				}
				if bad != "" {
					mu.Lock()
					fail("C20/observer-was-shown-private-information/status="+string(t.State.Status), fmt.Sprintf("a non-system observer was shown %s in a snapshot with status %s, hand event %s", bad, t.State.Status, gs.Status.CurrentEvent), witness())
					mu.Unlock()
					return
				}
				c.Feature("observer-view:" + string(t.State.Status))
			case "system-observer", "recorder":
				// full data must still be there, whatever actors ran before
				dealt := gs.Status.Round != "" && gs.Status.CurrentEvent != "GameClosed"
				if len(gs.Meta.Deck) != fullDeck {
					mu.Lock()
					fail("C20/full-view-lost-the-deck", fmt.Sprintf("%s (attached after the observer: %v) sees a deck of %d cards instead of %d (status %s)", who, names, len(gs.Meta.Deck), fullDeck, t.State.Status), witness())
					mu.Unlock()
					return
				}
				if dealt {
					for _, p := range gs.Players {
						if len(p.HoleCards) == 0 {
							mu.Lock()
							fail("C20/full-view-lost-hole-cards", fmt.Sprintf("%s sees no hole cards for entry %d in round %s (status %s, actor order %v)", who, p.Idx, gs.Status.Round, t.State.Status, names), witness())
							mu.Unlock()
							return
						}
					}
				}
				c.Feature(who + "-view:" + string(t.State.Status))
			}
		}
	}
	mk := func(kind string) actor.Actor {
		a := actor.NewActor()
		a.SetAdapter(actor.NewTableEngineAdapter(s.TE, s.TE.GetTable()))
		switch kind {
		case "observer":
			o := actor.NewObserverRunner()
			o.OnTableStateUpdated(record("observer"))
			a.SetRunner(o)
		case "demoted-observer":
			// was a system observer once, is an ordinary one now: judged like any observer
			o := actor.NewObserverRunner()
			o.EnabledSystemMode(true)
			o.EnabledSystemMode(false)
			o.OnTableStateUpdated(record("observer"))
			a.SetRunner(o)
		case "system-observer":
			o := actor.NewObserverRunner()
			o.EnabledSystemMode(true)
			o.OnTableStateUpdated(record("system-observer"))
			a.SetRunner(o)
		case "recorder":
			a.SetRunner(&recRunner{fn: record("recorder")})
		case "scribbler":
			a.SetRunner(&scribbler{})
		}
		return a
	}
	names = []string{"observer", "system-observer", "recorder", "scribbler", "observer"}
	if r.Intn(2) == 0 {
		names[4] = "demoted-observer"
		c.Feature("observer-demoted-from-system-mode")
	}
	r.Shuffle(len(names), func(i, j int) { names[i], names[j] = names[j], names[i] })
	for _, n := range names {
		actors = append(actors, mk(n))
	}
	c.FP(names, fmt.Sprintf("%+v", cfg), c.Case%4)
	c.Feature(fmt.Sprintf("first-actor:%s", names[0]))
	for _, pl := range cfg.Players {
		if err := s.Seat(pl.ID, pl.Seat, pl.Chips); err != nil {
			c.Inconclusive("seat: " + err.Error())
			return
		}
	}
	s.TE.StartTableGame()
	e, ok := s.WaitFor(5*time.Second, func(e *h.Ev) bool { return e.Kind == h.EvSetup }, nil)
	if !ok {
		c.Inconclusive("no set-up")
		return
	}
	pending := e.Setup
	// in two thirds of the cases two more goroutines keep publishing table-level events, so that two engine goroutines
	// deliver snapshots to the same actors at the same time
	noiseStop := make(chan struct{})
	noiseDone := make(chan struct{})
	if c.Case%3 != 0 {
		c.Feature("concurrent-publications")
		var nwg sync.WaitGroup
		for k := 0; k < 2; k++ {
			nwg.Add(1)
			go func(seed int64) {
				defer nwg.Done()
				nr := rand.New(rand.NewSource(seed))
				for {
					select {
					case <-noiseStop:
						return
					default:
					}
					s.TE.PlayerExtendActionDeadline("", 0)
					time.Sleep(time.Duration(40+nr.Intn(300)) * time.Microsecond)
				}
			}(r.Int63())
		}
		go func() { nwg.Wait(); close(noiseDone) }()
	} else {
		close(noiseDone)
	}
	defer func() { close(noiseStop); <-noiseDone }()
	ending := []string{"showdown", "fold-out", "pause-mid-hand", "close-mid-hand"}[c.Case%4]
	hands := 1 + r.Intn(3)
	for hno := 1; hno <= hands && !c.Failed(); hno++ {
		last := hno == hands
		s.SignalAll(h.SetupIDs(pending))
		pol := h.CallStation
		if ending == "fold-out" || r.Intn(3) == 0 {
			pol = h.Nit
		}
		turns := 0
		stop := false
		sc := &h.Script{Policy: pol, MaxWait: 15 * time.Second}
		sc.Stop = func() bool { return stop }
		sc.BeforeAct = func(e *h.Ev, gp int, pid string) bool {
			turns++
			// table-level events while the hand runs re-publish the hand state to every actor
			switch r.Intn(5) {
			case 0:
				s.TE.PlayerExtendActionDeadline(pid, 2)
				c.Feature("republished-by:extend")
			case 1:
				s.Redeem(pid, 5)
				c.Feature("republished-by:redeem")
			}
			if last && turns == 2 && (ending == "pause-mid-hand" || ending == "close-mid-hand") {
				if ending == "pause-mid-hand" {
					s.TE.PauseTable()
				}
				s.TE.CloseTable() // publishes a closed snapshot with the running hand attached
				c.Feature("closed-with-hand-attached")
				stop = true
				return false
			}
			return true
		}
		hd := s.PlayHand(sc)
		if stop {
			break
		}
		if hd.Settled == nil {
			if !c.Failed() {
				c.InconclusiveW("foreign: hand did not settle", witness())
			}
			return
		}
		if hd.Setup == nil {
			break
		}
		pending = hd.Setup
	}
	time.Sleep(3 * time.Millisecond)
	mu.Lock()
	nv := len(views)
	mu.Unlock()
	if c.Failed() {
		return
	}
	c.Count("views_checked", int64(nv))
	c.Count("snapshots_fanned_out", int64(nfan))
	_ = lastEngineDeck
	c.Feature("ending:" + ending)
	c.Nontrivial()
	c.Sample(map[string]interface{}{"cfg": cfg, "actor_order": names, "ending": ending, "views_checked": nv})
}

type recRunner struct{ fn func(t *pt.Table) }

func (r *recRunner) SetActor(a actor.Actor)             {}
func (r *recRunner) UpdateTableState(t *pt.Table) error { r.fn(t); return nil }

func init() {
	h.Register(&h.Check{
		ID:        "C20",
		Level:     "exploration",
		Technique: "runtime monitoring of the actor fan-out: two plain observers, a system observer, a recording runner and a runner that vandalises its table are attached (PRNG order) through the real table-engine adapter to real hands; every view handed to a callback and the engine's own table after every fan-out are inspected",
		Rule: "case = one generated table (2..7 players, default / short deck) playing 1..3 hands driven by the harness, with deadline extensions and add-ons re-publishing the running hand, ending by showdown, fold-out, or pause / close while the hand runs; actors in a PRNG-chosen order; " +
			"every completed case is non-trivial; distinct = config + actor order + ending",
		Assumptions: []string{"the engine's own table is compared on its private parts (deck size, scribble markers) because other engine goroutines legitimately change the rest during a fan-out"},
		Cases:       func(tier string) int { return map[string]int{"quick": 480, "thorough": 8000}[tier] },
		MinNontrivial: func(tier string) int {
			return map[string]int{"quick": 420, "thorough": 7000}[tier]
		},
		RequiredFeatures: func(string) []string {
			return []string{"observer-view:table_game_playing", "observer-view:table_game_settled", "observer-view:table_closed", "system-observer-view:table_game_playing", "recorder-view:table_closed", "closed-with-hand-attached", "republished-by:extend", "republished-by:redeem", "first-actor:observer", "first-actor:scribbler", "first-actor:system-observer", "ending:showdown", "ending:fold-out", "concurrent-publications", "observer-demoted-from-system-mode"}
		},
		CaseTimeout: 120e9,
		Run:         c20Run,
	})
}
