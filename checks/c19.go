package checks

import (
	"fmt"
	"math/rand"
	"sort"
	"strings"
	"sync"
	"sync/atomic"
	"time"

	"github.com/weedbox/pokerface"
	pt "github.com/weedbox/pokertable"
	"github.com/weedbox/pokertable/actor"

	h "verif/harness"
)

// C19 — auto-play for an unresponsive player never volunteers chips.

var c19Names = []string{"ready", "pay", "pass", "fold", "check", "call", "allin", "bet", "raise"}
var c19Events = []string{"AnteRequested", "BlindsRequested", "RoundStarted", "ReadyRequested"}
var c19Positions = [][]string{{"dealer"}, {"sb"}, {"bb"}, {"dealer", "sb"}, {}}
var c19Status = []string{"running", "idle", "suspended"}

const (
	c19Ante, c19Dealer, c19SB, c19BB = 3, 50, 10, 20
)

type c19Expect struct {
	act    string // "" = nothing
	chips  int64
	exact  bool // the statement determines the choice
	atOnce bool // may / must come before the thinking time (pass, or suspended)
}

func c19Decide(allowed []string, event string, positions []string, status string) c19Expect {
	hasA := func(a string) bool { return has(allowed, a) }
	if len(allowed) == 0 {
		return c19Expect{exact: true}
	}
	if hasA("pass") {
		if len(allowed) == 1 {
			return c19Expect{act: "pass", exact: true, atOnce: true}
		}
		return c19Expect{exact: false, atOnce: true} // the engine never mixes pass with other actions
	}
	e := c19Expect{exact: c19Realistic(allowed, event), atOnce: status == "suspended"}
	switch {
	case hasA("ready"):
		e.act = "ready"
	case hasA("check"):
		e.act = "check"
	case hasA("fold"):
		e.act = "fold"
	case hasA("pay") && event == "AnteRequested":
		e.act, e.chips = "pay", c19Ante
	case hasA("pay") && event == "BlindsRequested":
		e.act = "pay"
		switch {
		case has(positions, "sb"):
			e.chips = c19SB
		case has(positions, "bb"):
			e.chips = c19BB
		default:
			e.chips = c19Dealer
		}
	case hasA("pay"):
		e.exact = false // pay outside a collection phase does not occur; only "no voluntary chips" is judged
	}
	return e
}

// c19Realistic: allowed-action sets the hand engine can actually produce for a player at that event. Only for
// those does the statement determine the automatic choice; all other sets are still executed and must never
// yield call / bet / raise / all-in.
func c19Realistic(allowed []string, event string) bool {
	switch event {
	case "ReadyRequested":
		return len(allowed) == 1 && allowed[0] == "ready"
	case "AnteRequested", "BlindsRequested":
		return len(allowed) == 1 && allowed[0] == "pay"
	case "RoundStarted":
		if len(allowed) == 1 && allowed[0] == "pass" {
			return true
		}
		for _, a := range allowed {
			if !map[string]bool{"fold": true, "check": true, "call": true, "allin": true, "bet": true, "raise": true}[a] {
				return false
			}
		}
		return len(allowed) > 0
	}
	return false
}

func c19Table(allowed []string, event string, positions []string, actionTime int, stamp int64) *pt.Table {
	gs := &pokerface.GameState{
		GameID:    "g",
		UpdatedAt: stamp,
		Meta:      pokerface.Meta{Ante: c19Ante, Blind: pokerface.BlindSetting{Dealer: c19Dealer, SB: c19SB, BB: c19BB}},
		Status:    pokerface.Status{CurrentEvent: event, Round: "preflop", CurrentPlayer: 0, MiniBet: c19BB, CurrentWager: c19BB},
		Players: []*pokerface.PlayerState{
			{Idx: 0, Positions: positions, AllowedActions: append([]string{}, allowed...), Bankroll: 1000, InitialStackSize: 1000, StackSize: 1000},
			{Idx: 1, Positions: []string{"co"}, Bankroll: 1000, InitialStackSize: 1000, StackSize: 1000},
		},
	}
	return &pt.Table{
		ID:   "T",
		Meta: pt.TableMeta{ActionTime: actionTime, TableMaxSeatCount: 9, Rule: "default"},
		State: &pt.TableState{
			Status:    pt.TableStateStatus_TableGamePlaying,
			GameCount: 1,
			// the table's live level has moved on since the hand opened: the posted sizes are the hand's own
			BlindState:        &pt.TableBlindState{Level: 2, Ante: 2 * c19Ante, Dealer: 2 * c19Dealer, SB: 2 * c19SB, BB: 2 * c19BB},
			PlayerStates:      []*pt.TablePlayerState{{PlayerID: "me", Seat: 0, IsIn: true, IsParticipated: true, Bankroll: 1000}, {PlayerID: "other", Seat: 1, IsIn: true, IsParticipated: true, Bankroll: 1000}},
			GamePlayerIndexes: []int{0, 1},
			SeatMap:           []int{0, 1, -1, -1, -1, -1, -1, -1, -1},
			GameState:         gs,
		},
	}
}

type c19Combo struct {
	mask   int
	event  string
	pos    []string
	status string
	at     int
}

func (k c19Combo) allowed() []string {
	var a []string
	for i, n := range c19Names {
		if k.mask&(1<<i) != 0 {
			a = append(a, n)
		}
	}
	return a
}

// c19One feeds one synthetic view to a fresh player runner and returns the calls it made and when.
// patience is how long after the thinking time the spy is watched (an upper bound that only ends the wait).
func c19One(k c19Combo, patience time.Duration) (calls []spyCall, delivered int64, waited time.Duration) {
	pr := actor.NewPlayerRunner("me")
	sp := &spyAdapter{noForward: true, name: "me", idx: 0}
	a := actor.NewActor()
	a.SetAdapter(sp)
	a.SetRunner(pr)
	switch k.status {
	case "idle":
		pr.Idle()
	case "suspended":
		pr.Suspend()
	}
	t := c19Table(k.allowed(), k.event, k.pos, k.at, 1000)
	sp.gs = t.State.GameState
	delivered = h.Mono()
	a.UpdateTableState(t)
	wait := time.Duration(k.at)*time.Second + patience
	dl := time.Now().Add(wait)
	for time.Now().Before(dl) {
		if len(sp.snapshotCalls()) > 0 && (k.at == 0 || patience > time.Second) {
			break
		}
		time.Sleep(2 * time.Millisecond)
	}
	time.Sleep(3 * time.Millisecond)
	if patience > time.Second {
		time.Sleep(100 * time.Millisecond) // room for a second, unwanted call
	}
	return sp.snapshotCalls(), delivered, wait
}

func c19Judge(c *h.Ctx, mu *sync.Mutex, k c19Combo, calls []spyCall, delivered int64, src string) bool {
	exp := c19Decide(k.allowed(), k.event, k.pos, k.status)
	viol := func(sig, detail string) bool {
		mu.Lock()
		defer mu.Unlock()
		c.Violate(sig, fmt.Sprintf("%s: allowed=%v event=%s positions=%v status=%s action time=%ds: %s; calls=%v", src, k.allowed(), k.event, k.pos, k.status, k.at, detail, calls), map[string]interface{}{"combo": fmt.Sprintf("%+v", k), "calls": calls})
		return false
	}
	for _, cl := range calls {
		switch cl.Act {
		case "call", "bet", "raise", "allin":
			return viol("C19/auto-play-volunteered-chips/"+cl.Act, "auto-play submitted "+cl.Act)
		}
		if cl.PID != "me" && src == "decision-table" {
			return viol("C19/acted-for-another-player", "call made for "+cl.PID)
		}
	}
	if len(calls) > 1 {
		return viol("C19/more-than-one-automatic-action", fmt.Sprintf("%d calls for one request", len(calls)))
	}
	if len(calls) == 1 {
		el := time.Duration(calls[0].Mono - delivered)
		if !exp.atOnce && calls[0].Act != "pass" && el < time.Duration(k.at)*time.Second-3*time.Millisecond {
			return viol("C19/acted-before-thinking-time-elapsed", fmt.Sprintf("%s after %v", calls[0].Act, el))
		}
	}
	if !exp.exact {
		return true
	}
	if exp.act == "" {
		if len(calls) != 0 {
			return viol("C19/acted-although-nothing-conservative-is-allowed", "expected no call")
		}
		return true
	}
	if len(calls) == 0 {
		return viol("C19/no-automatic-action", fmt.Sprintf("expected %s %d", exp.act, exp.chips))
	}
	if calls[0].Act != exp.act {
		return viol("C19/not-the-most-conservative-action", fmt.Sprintf("expected %s, got %s", exp.act, calls[0].Act))
	}
	if exp.act == "pay" && calls[0].Chips != exp.chips {
		return viol("C19/pay-not-the-posted-size", fmt.Sprintf("expected pay %d, got pay %d", exp.chips, calls[0].Chips))
	}
	return true
}

// c19Table512: the whole decision table. quick: all combos with action time 0 plus a PRNG sample with action time 1;
// thorough: everything with both action times.
func c19DecisionTable(c *h.Ctx, part, parts int) {
	var combos []c19Combo
	for mask := 0; mask < 512; mask++ {
		for _, ev := range c19Events {
			for _, pos := range c19Positions {
				for _, st := range c19Status {
					combos = append(combos, c19Combo{mask, ev, pos, st, 0})
				}
			}
		}
	}
	n0 := len(combos)
	if c.Thorough() {
		for i := 0; i < n0; i++ {
			k := combos[i]
			k.at = 1
			combos = append(combos, k)
		}
	} else {
		for i := 0; i < 2400; i++ {
			k := combos[c.R.Intn(n0)]
			k.at = 1
			combos = append(combos, k)
		}
	}
	var mu sync.Mutex
	var judged, withCall int64
	var again []c19Combo
	sem := make(chan struct{}, 1500)
	var wg sync.WaitGroup
	for i, k := range combos {
		if i%parts != part {
			continue
		}
		if c.Failed() {
			break
		}
		wg.Add(1)
		sem <- struct{}{}
		go func(k c19Combo) {
			defer wg.Done()
			defer func() { <-sem }()
			patience := 50 * time.Millisecond
			if k.at > 0 {
				patience = 400 * time.Millisecond
			}
			calls, delivered, _ := c19One(k, patience)
			if exp := c19Decide(k.allowed(), k.event, k.pos, k.status); exp.exact && exp.act != "" && len(calls) == 0 {
				// nothing yet: on a loaded machine the runner's timer may simply be late (found by vp check: 1 of
				// 2 400 entries with a thinking time of 1 s had not acted after 1.4 s while 19 other checks ran).
				// The entry is judged again below, alone and with a patience of 15 s; silence then is a violation.
				mu.Lock()
				again = append(again, k)
				mu.Unlock()
				return
			}
			if c19Judge(c, &mu, k, calls, delivered, "decision-table") {
				atomic.AddInt64(&judged, 1)
				if len(calls) > 0 {
					atomic.AddInt64(&withCall, 1)
				}
			}
		}(k)
	}
	wg.Wait()
	for _, k := range again {
		if c.Failed() {
			break
		}
		calls, delivered, _ := c19One(k, 15*time.Second)
		if c19Judge(c, &mu, k, calls, delivered, "decision-table") {
			judged++
			if len(calls) > 0 {
				withCall++
			}
		}
	}
	c.Count("decision_table_entries_judged_again_with_more_patience", int64(len(again)))
	c.Count("decision_table_entries_judged", judged)
	c.Count("decision_table_entries_with_a_call", withCall)
	c.Feature(fmt.Sprintf("decision-table-part-%d/%d", part, parts))
	c.Nontrivial()
	c.FP("table", part, parts)
	c.Sample(map[string]interface{}{"kind": "decision table", "part": fmt.Sprintf("%d/%d", part, parts), "entries": judged, "space": "512 allowed-action sets x 4 events x 5 position sets x 3 statuses x action time {0,1}"})
}

// c19Real: a silent player runner sits at a real table; the others are driven by the harness.
// c19AwaitCalls waits until the spy has recorded at least n calls made after mono time `since`, or until max has
// passed (an upper bound that only ends the wait: a slow machine delays the runner's timer, it does not cancel it).
func c19AwaitCalls(sp *spyAdapter, since int64, n int, min, max time.Duration) {
	time.Sleep(min)
	for dl := time.Now().Add(max - min); time.Now().Before(dl); time.Sleep(20 * time.Millisecond) {
		k := 0
		for _, cl := range sp.snapshotCalls() {
			if cl.Mono > since {
				k++
			}
		}
		if k >= n {
			break
		}
	}
	time.Sleep(150 * time.Millisecond) // room for a second, unwanted call
}

// c19OpenedThenPlaying: a table-level event right after the open delivers the hand's first state on a snapshot whose
// status is still "opened"; the playing snapshot that follows carries the same state. The runner must still act on
// the request (once, after the thinking time).
func c19OpenedThenPlaying(c *h.Ctx) {
	for _, status := range c19Status {
		for _, ev := range []struct {
			event   string
			allowed []string
			pos     []string
			want    string
		}{{"ReadyRequested", []string{"ready"}, []string{"dealer"}, "ready"}, {"BlindsRequested", []string{"pay"}, []string{"bb"}, "pay"}, {"RoundStarted", []string{"fold", "call", "allin"}, []string{"dealer"}, "fold"}} {
			pr := actor.NewPlayerRunner("me")
			sp := &spyAdapter{noForward: true, name: "me", idx: 0}
			a := actor.NewActor()
			a.SetAdapter(sp)
			a.SetRunner(pr)
			switch status {
			case "idle":
				pr.Idle()
			case "suspended":
				pr.Suspend()
			}
			mk := func(st pt.TableStateStatus) *pt.Table {
				t := c19Table(ev.allowed, ev.event, ev.pos, 1, 5000)
				t.State.Status = st
				return t
			}
			t1 := mk(pt.TableStateStatus_TableGameOpened)
			sp.gs = t1.State.GameState
			a.UpdateTableState(t1)
			time.Sleep(time.Duration(c.R.Intn(3000)) * time.Microsecond)
			if n := len(sp.snapshotCalls()); n != 0 {
				c.Violate("C19/acted-on-a-snapshot-that-is-not-playing", fmt.Sprintf("%s runner submitted %v on a snapshot with status opened", status, sp.snapshotCalls()), nil)
				return
			}
			t2 := mk(pt.TableStateStatus_TableGamePlaying)
			sp.gs = t2.State.GameState
			t0 := h.Mono()
			a.UpdateTableState(t2)
			c19AwaitCalls(sp, t0, 1, 1200*time.Millisecond, 12*time.Second)
			calls := sp.snapshotCalls()
			if len(calls) != 1 || calls[0].Act != ev.want {
				c.Violate("C19/no-automatic-action/state-first-seen-on-an-opened-snapshot", fmt.Sprintf("%s runner, %s allowed %v: the state was first delivered on a snapshot with status opened, then on the playing snapshot; 12 s after that the runner has submitted %v (expected one %s)", status, ev.event, ev.allowed, calls, ev.want), nil)
				return
			}
			if status != "suspended" && time.Duration(calls[0].Mono-t0) < time.Second-3*time.Millisecond {
				c.Violate("C19/acted-before-thinking-time-elapsed", fmt.Sprintf("%s runner: %s after %v (action time 1 s)", status, calls[0].Act, time.Duration(calls[0].Mono-t0)), nil)
				return
			}
			c.Count("opened_then_playing_sequences", 1)
		}
	}
	c.Feature("state-first-seen-on-an-opened-snapshot")
	c.Nontrivial()
	c.FP("opened-then-playing", c.Seed)
	c.Sample(map[string]interface{}{"kind": "hand state delivered on an opened snapshot first, then on the playing one"})
}

// c19ManualAnswers: the human answers some requests himself (through the runner's own action methods) and then goes
// silent. Auto-play must neither act early for the next request (a clock left over from the answered one) nor forget
// it (a clock stopped after the next request had already arrived while the answer was still on its way).
func c19ManualAnswers(c *h.Ctx) {
	mk := func(game string, stamp int64, event string, allowed []string) *pt.Table {
		t := c19Table(allowed, event, []string{"dealer"}, 1, stamp)
		t.State.GameState.GameID = game
		return t
	}
	judge := func(what string, calls []spyCall, askedAt int64, want string) bool {
		var auto []spyCall
		for _, cl := range calls {
			if cl.Mono > askedAt {
				auto = append(auto, cl)
			}
		}
		if len(auto) == 0 {
			c.Violate("C19/no-automatic-action/after-a-manual-answer", fmt.Sprintf("%s: the player was asked again and stayed silent; 12 s later (thinking time 1 s) nothing has been submitted for him", what), calls)
			return false
		}
		if el := time.Duration(auto[0].Mono - askedAt); el < time.Second-5*time.Millisecond {
			c.Violate("C19/acted-before-thinking-time-elapsed", fmt.Sprintf("%s: %s submitted %v after the request (thinking time 1 s)", what, auto[0].Act, el), calls)
			return false
		}
		if len(auto) != 1 || auto[0].Act != want {
			c.Violate("C19/not-the-most-conservative-action", fmt.Sprintf("%s: expected exactly one automatic %s, got %v", what, want, auto), calls)
			return false
		}
		return true
	}
	// (1) answered by hand at the end of one hand, asked again early in the next
	{
		pr := actor.NewPlayerRunner("me")
		sp := &spyAdapter{noForward: true, name: "me", idx: 0}
		a := actor.NewActor()
		a.SetAdapter(sp)
		a.SetRunner(pr)
		t1 := mk("hand-1", 1000, "RoundStarted", []string{"check", "fold", "allin"})
		sp.gs = t1.State.GameState
		a.UpdateTableState(t1)
		time.Sleep(time.Duration(200+c.R.Intn(200)) * time.Millisecond)
		pr.Check() // the human answers himself
		time.Sleep(time.Duration(100+c.R.Intn(200)) * time.Millisecond)
		t2 := mk("hand-2", 2000, "RoundStarted", []string{"check", "fold", "allin"})
		sp.gs = t2.State.GameState
		asked := h.Mono()
		a.UpdateTableState(t2)
		c19AwaitCalls(sp, asked, 1, 1200*time.Millisecond, 12*time.Second)
		if !judge("answered by hand in hand 1, asked again in hand 2", sp.snapshotCalls(), asked, "check") {
			return
		}
	}
	// (2) the next request arrives while the manual answer is still inside the engine
	{
		pr := actor.NewPlayerRunner("me")
		sp := &spyAdapter{noForward: true, name: "me", idx: 0}
		a := actor.NewActor()
		a.SetAdapter(sp)
		a.SetRunner(pr)
		t1 := mk("hand-1", 1000, "RoundStarted", []string{"call", "fold", "allin"})
		sp.gs = t1.State.GameState
		a.UpdateTableState(t1)
		time.Sleep(time.Duration(100+c.R.Intn(300)) * time.Millisecond)
		var asked int64
		sp.inCall = func(act string) {
			if act != "call" {
				return
			}
			sp.inCall = nil
			// what the table does before the call returns: the hand moves on and asks the same player again
			t2 := mk("hand-1", 2000, "RoundStarted", []string{"check", "bet", "fold", "allin"})
			sp.gs = t2.State.GameState
			done := make(chan struct{})
			go func() { asked = h.Mono(); a.UpdateTableState(t2); close(done) }()
			<-done
		}
		pr.Call()
		c19AwaitCalls(sp, asked, 1, 1200*time.Millisecond, 12*time.Second)
		if !judge("asked again while his manual call was still on its way", sp.snapshotCalls(), asked, "check") {
			return
		}
	}
	// (3) marked idle, then resumed: a running player again - every request gets its full thinking time, however many
	// requests in a row time out
	{
		pr := actor.NewPlayerRunner("me")
		sp := &spyAdapter{noForward: true, name: "me", idx: 0}
		a := actor.NewActor()
		a.SetAdapter(sp)
		a.SetRunner(pr)
		pr.Idle()
		pr.Resume()
		for k := 0; k < 3; k++ {
			t := mk(fmt.Sprintf("hand-%d", k+1), int64(1000*(k+1)), "RoundStarted", []string{"check", "fold", "allin"})
			sp.gs = t.State.GameState
			asked := h.Mono()
			a.UpdateTableState(t)
			c19AwaitCalls(sp, asked, 1, 1100*time.Millisecond, 12*time.Second)
			if !judge(fmt.Sprintf("idle, resumed, request %d left unanswered", k+1), sp.snapshotCalls(), asked, "check") {
				return
			}
		}
	}
	// (4) the actor is moved to another table (a second adapter): automatic actions go to the table that asks
	{
		pr := actor.NewPlayerRunner("me")
		sp1 := &spyAdapter{noForward: true, name: "table-1", idx: 0}
		sp2 := &spyAdapter{noForward: true, name: "table-2", idx: 0}
		a := actor.NewActor()
		a.SetAdapter(sp1)
		a.SetRunner(pr)
		pr.Suspend()
		t1 := mk("t1-hand", 1000, "RoundStarted", []string{"check", "fold"})
		sp1.gs = t1.State.GameState
		a.UpdateTableState(t1)
		time.Sleep(20 * time.Millisecond)
		a.SetAdapter(sp2)
		t2 := mk("t2-hand", 2000, "RoundStarted", []string{"check", "fold"})
		sp2.gs = t2.State.GameState
		n1 := len(sp1.snapshotCalls())
		a.UpdateTableState(t2)
		c19AwaitCalls(sp2, 0, 1, 20*time.Millisecond, 10*time.Second)
		if got1, got2 := len(sp1.snapshotCalls())-n1, len(sp2.snapshotCalls()); got2 != 1 || got1 != 0 {
			c.Violate("C19/no-automatic-action/sent-to-another-table", fmt.Sprintf("the (suspended) player was moved to a second table and asked there: the asking table received %d automatic actions, the table he had left %d", got2, got1), map[string]interface{}{"table-1": sp1.snapshotCalls(), "table-2": sp2.snapshotCalls()})
			return
		}
	}
	c.Feature("manual-answers-then-silence")
	c.Nontrivial()
	c.FP("manual", c.Seed)
	c.Sample(map[string]interface{}{"kind": "manual answers followed by silence (clock carried over / clock stopped late)"})
}

func c19Real(c *h.Ctx) {
	r := c.R
	cfg := h.GenTable(r, h.GenOpts{MinSeats: 2, MaxSeats: 6, MinPlayers: 2, Modes: []string{"ct", "cash"}, ActionTime: 1})
	cfg.ActionTime = 1
	me := cfg.Players[r.Intn(len(cfg.Players))].ID
	status := c19Status[r.Intn(3)]
	var act actor.Actor
	var sp *spyAdapter
	var mu sync.Mutex
	type pend struct {
		k         c19Combo
		delivered int64
		n         int64
		wantPay   int64 // the amount posted for this hand (from the hand's own meta), for ante / blind requests
	}
	var pending []pend
	last := map[string]int64{}
	jr := rand.New(rand.NewSource(r.Int63())) // guarded by mu (used on the engine's callback goroutines)
	var pokes int64
	other := ""
	for _, pl := range cfg.Players {
		if pl.ID != me {
			other = pl.ID
		}
	}
	fan := func(t *pt.Table) {
		if act != nil {
			act.GetTable().UpdateTableState(t)
		}
	}
	rig := h.NewRigBackend()
	rig.DeckFn = h.SeededDeck(rand.New(rand.NewSource(r.Int63())))
	s, err := h.NewSim(h.SimConfig{Setting: cfg.Setting(false), Interval: 0, Backend: rig, OnSync: fan}, r.Int63())
	if err != nil {
		c.Inconclusive(err.Error())
		return
	}
	pr := actor.NewPlayerRunner(me)
	switch status {
	case "idle":
		pr.Idle()
	case "suspended":
		pr.Suspend()
	}
	sp = &spyAdapter{inner: actor.NewTableEngineAdapter(s.TE, s.TE.GetTable()), name: me, copyFirst: true}
	var dlog []string // every view delivered to the silent player's actor (for the witness)
	sp.onUpdate = func(sp *spyAdapter, t *pt.Table, n int64) {
		gs := t.State.GameState
		{
			line := fmt.Sprintf("#%d mono=%d status=%s", n, h.Mono(), t.State.Status)
			if gs != nil {
				line += fmt.Sprintf(" game=%s updated_at=%d event=%s", gs.GameID[:6], gs.UpdatedAt, gs.Status.CurrentEvent)
				if gp := h.GameIdx(t, me); gp >= 0 && gp < len(gs.Players) {
					line += fmt.Sprintf(" allowed=%v", gs.Players[gp].AllowedActions)
				}
			}
			mu.Lock()
			dlog = append(dlog, line)
			mu.Unlock()
		}
		if gs == nil || t.State.Status != pt.TableStateStatus_TableGamePlaying {
			return
		}
		if gs.UpdatedAt <= last[gs.GameID] {
			return
		}
		last[gs.GameID] = gs.UpdatedAt
		gp := h.GameIdx(t, me)
		if gp < 0 || gp >= len(gs.Players) || len(gs.Players[gp].AllowedActions) == 0 {
			return
		}
		k := c19Combo{event: gs.Status.CurrentEvent, pos: append([]string{}, gs.Players[gp].Positions...), status: status, at: 1}
		for i, nme := range c19Names {
			if has(gs.Players[gp].AllowedActions, nme) {
				k.mask |= 1 << i
			}
		}
		want := int64(-1)
		switch gs.Status.CurrentEvent {
		case "AnteRequested":
			want = gs.Meta.Ante
		case "BlindsRequested":
			switch {
			case gs.HasPosition(gp, "sb"):
				want = gs.Meta.Blind.SB
			case gs.HasPosition(gp, "bb"):
				want = gs.Meta.Blind.BB
			default:
				want = gs.Meta.Blind.Dealer
			}
		}
		mu.Lock()
		pending = append(pending, pend{k, h.Mono(), n, want})
		poke := jr.Intn(2) == 0
		after := time.Duration(100+jr.Intn(750)) * time.Millisecond
		mu.Unlock()
		// a table-level event while the silent player's thinking time runs (somebody else tops up one chip): the table
		// is published again with the same hand state; the pending automatic action must still come
		if poke && other != "" {
			time.AfterFunc(after, func() {
				s.TE.PlayerRedeemChips(pt.JoinPlayer{PlayerID: other, RedeemChips: 1})
				atomic.AddInt64(&pokes, 1)
			})
		}
	}
	a := actor.NewActor()
	a.SetAdapter(sp)
	a.SetRunner(pr)
	act = a
	for _, pl := range cfg.Players {
		if err := s.Seat(pl.ID, pl.Seat, pl.Chips); err != nil {
			c.Inconclusive("seat: " + err.Error())
			return
		}
	}
	s.TE.StartTableGame()
	e, ok := s.WaitFor(5*time.Second, func(e *h.Ev) bool { return e.Kind == h.EvSetup }, nil)
	if !ok {
		c.Inconclusive("no set-up")
		return
	}
	s.SignalAll(h.SetupIDs(e.Setup))
	// a table-level event around the moment the hand opens re-publishes the table, possibly with status playing
	// and no hand state yet
	time.Sleep(time.Duration(r.Intn(1500)) * time.Microsecond)
	s.TE.PlayerExtendActionDeadline("", 0)
	if r.Intn(2) == 0 {
		// the level changes while the hand runs: automatic payments are still of the size posted for this hand
		s.TE.UpdateBlind(cfg.Level+1, cfg.Ante*2+1, cfg.Dealer*2, cfg.SB*2+1, cfg.BB*2+1)
		c.Feature("real:level-raised-mid-hand")
	}
	// the harness plays everybody but "me"
	script := &h.Script{Policy: h.CallStation, MaxWait: 30 * time.Second}
	script.OnRequest = func(e *h.Ev, kind string, asked []string) []string {
		out := []string{}
		for _, id := range asked {
			if id != me {
				out = append(out, id)
			}
		}
		return out
	}
	script.BeforeAct = func(e *h.Ev, gp int, pid string) bool { return pid != me }
	hd := s.PlayHand(script)
	time.Sleep(5 * time.Millisecond)
	calls := sp.snapshotCalls()
	mu.Lock()
	dl := append([]string{}, dlog...)
	mu.Unlock()
	w := map[string]interface{}{"cfg": cfg, "silent_player": me, "status": status, "runner_calls": calls, "deliveries": dl, "trace": s.TraceTail(40)}
	// real views: amounts differ from the synthetic constants, so judge with the view's own numbers
	mu.Lock()
	reqs := append([]pend{}, pending...)
	mu.Unlock()
	if len(reqs) == 0 {
		c.Inconclusive("the silent player was never asked in this hand")
		return
	}
	sort.Slice(calls, func(i, j int) bool { return calls[i].Mono < calls[j].Mono })
	ci := 0
	timedOut := 0
	for qi, q := range reqs {
		exp := c19Decide(q.k.allowed(), q.k.event, q.k.pos, status)
		if status == "idle" && timedOut >= 2 {
			exp.atOnce = true // an idle player who let two requests time out is suspended by the runner
		}
		var mine []spyCall
		limit := int64(1 << 62)
		if qi+1 < len(reqs) {
			limit = reqs[qi+1].delivered
		}
		for ci < len(calls) && calls[ci].Mono < limit {
			mine = append(mine, calls[ci])
			ci++
		}
		for _, cl := range mine {
			switch cl.Act {
			case "call", "bet", "raise", "allin":
				c.Violate("C19/auto-play-volunteered-chips/"+cl.Act, fmt.Sprintf("silent player %s (%s): auto-play submitted %s; allowed %v", me, status, cl.Act, q.k.allowed()), w)
				return
			}
			if cl.Err != "" {
				c.Violate("C19/automatic-action-rejected-by-engine/"+cl.Act, fmt.Sprintf("silent player %s: automatic %s %d rejected: %s", me, cl.Act, cl.Chips, cl.Err), w)
				return
			}
			if cl.PID != me {
				c.Violate("C19/acted-for-another-player", fmt.Sprintf("call for %s", cl.PID), w)
				return
			}
		}
		if len(mine) > 1 {
			c.Violate("C19/more-than-one-automatic-action", fmt.Sprintf("%d calls for one request: %v", len(mine), mine), w)
			return
		}
		if !exp.exact {
			continue
		}
		if exp.act == "" {
			continue
		}
		if len(mine) == 0 && qi+1 < len(reqs) && time.Duration(reqs[qi+1].delivered-q.delivered) > 12*time.Second {
			c.Violate("C19/no-automatic-action/hand-moved-on-by-the-engines-own-timeout", fmt.Sprintf("silent player %s (%s) was asked (%v at %s, thinking time 1 s); nothing was submitted for it and the next request only came %v later", me, status, q.k.allowed(), q.k.event, time.Duration(reqs[qi+1].delivered-q.delivered)), w)
			return
		}
		if len(mine) == 0 {
			if qi == len(reqs)-1 && hd.Settled == nil {
				c.Violate("C19/no-automatic-action", fmt.Sprintf("silent player %s (%s) was asked (%v at %s) and nothing was submitted for it; the hand is stuck", me, status, q.k.allowed(), q.k.event), w)
				return
			}
			continue
		}
		cl := mine[0]
		if cl.Act != exp.act {
			c.Violate("C19/not-the-most-conservative-action", fmt.Sprintf("silent player %s (%s): allowed %v at %s, expected %s, got %s", me, status, q.k.allowed(), q.k.event, exp.act, cl.Act), w)
			return
		}
		if exp.act == "pay" {
			if cl.Chips != q.wantPay {
				c.Violate("C19/pay-not-the-posted-size", fmt.Sprintf("silent player %s (%s): automatic pay of %d at %s, the amount posted for this hand is %d (positions %v)", me, status, cl.Chips, q.k.event, q.wantPay, q.k.pos), w)
				return
			}
			c.Feature("real:pay")
		}
		el := time.Duration(cl.Mono - q.delivered)
		if !exp.atOnce && el < time.Second-3*time.Millisecond {
			c.Violate("C19/acted-before-thinking-time-elapsed", fmt.Sprintf("silent player %s (%s): %s after %v (action time 1 s)", me, status, cl.Act, el), w)
			return
		}
		if exp.act != "pass" {
			timedOut++
		}
		c.Feature("real:" + exp.act)
		c.Count("real_requests_judged", 1)
	}
	if hd.Settled == nil {
		c.Violate("C19/hand-with-silent-player-did-not-finish", fmt.Sprintf("silent player %s (%s): the hand did not settle within 30 s", me, status), w)
		return
	}
	c.Feature("real-table:" + status)
	if atomic.LoadInt64(&pokes) > 0 {
		c.Feature("real:table-level-event-during-thinking-time")
		c.Count("real_pokes_during_thinking_time", atomic.LoadInt64(&pokes))
	}
	c.Nontrivial()
	c.FP("real", fmt.Sprintf("%+v", cfg), me, status)
	acts := []string{}
	for _, cl := range calls {
		acts = append(acts, cl.Act)
	}
	c.Sample(map[string]interface{}{"kind": "silent player at a real table", "status": status, "requests": len(reqs), "automatic_actions": strings.Join(acts, ",")})
}

func init() {
	h.Register(&h.Check{
		ID:        "C19",
		Level:     "exploration",
		Technique: "runtime monitoring of the real player runner behind an adapter spy: (A) the complete decision table of synthetic views (all 512 allowed-action sets x event x positions x runner status, action time 0 and 1) against an independent conservative-choice reference with a lower time bound; (B) real tables where one seat is a silent player runner and the spy applies the same reference to the views the engine produced",
		Rule: "cases 0..7 = the decision table split in 8 parts (quick: every entry with action time 0 plus 2400 PRNG-sampled entries with action time 1 per part set; thorough: every entry with both action times, exhaustive); remaining cases = one real table each (2..6 players, action time 1, silent player running / idle / suspended, the others call and check); " +
			"every case is non-trivial; distinct = table part or config+silent player+status",
		Assumptions: []string{"allowed-action sets the engine cannot produce (pass mixed with other actions, pay outside a collection phase) are executed but only 'never call / bet / raise / all-in' is judged for them", "'not before the thinking time' is a lower bound (1 s minus 3 ms); an upper bound is not judged except that a hand with a silent player must settle within 30 s"},
		Cases:       func(tier string) int { return map[string]int{"quick": 8 + 120, "thorough": 8 + 2000}[tier] },
		MinNontrivial: func(tier string) int {
			return map[string]int{"quick": 100, "thorough": 1700}[tier]
		},
		RequiredFeatures: func(string) []string {
			return []string{"decision-table-part-0/8", "decision-table-part-7/8", "real-table:running", "real-table:idle", "real-table:suspended", "real:ready", "real:fold", "real:check", "real:pay", "real:level-raised-mid-hand", "real:table-level-event-during-thinking-time", "state-first-seen-on-an-opened-snapshot", "manual-answers-then-silence"}
		},
		Post: func(tier string, rs []*h.CaseResult) map[string]interface{} {
			var n int64
			full := true
			for i := 0; i < 8 && i < len(rs); i++ {
				if rs[i] == nil || rs[i].Verdict != h.Held {
					full = false
					continue
				}
				n += rs[i].Counters["decision_table_entries_judged"]
			}
			return map[string]interface{}{"decision_table_entries": n, "exhaustive": full && tier == "thorough", "exhaustive_scope": "part A only: 512 x 4 x 5 x 3 x {0,1} synthetic views (thorough); quick covers all action-time-0 entries and a sample with action time 1"}
		},
		CaseTimeout: 300e9,
		InProc:      6,
		Run: func(c *h.Ctx) {
			if c.Case < 8 {
				c19DecisionTable(c, c.Case, 8)
				return
			}
			if c.Case%32 == 9 {
				c19OpenedThenPlaying(c)
				return
			}
			if c.Case%32 == 25 {
				c19ManualAnswers(c)
				return
			}
			c19Real(c)
		},
	})
}
