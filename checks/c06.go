package checks

import (
	"fmt"
	"reflect"

	pt "github.com/weedbox/pokertable"

	h "verif/harness"
)

// C06 — position labels and next-BB order agree with the button seats (default-rule tables).

func stdLabels(n int) []string {
	switch n {
	case 10:
		return []string{"dealer", "sb", "bb", "ug", "ug2", "ug3", "mp", "mp2", "hj", "co"}
	case 9:
		return []string{"dealer", "sb", "bb", "ug", "ug2", "mp", "mp2", "hj", "co"}
	case 8:
		return []string{"dealer", "sb", "bb", "ug", "ug2", "mp", "hj", "co"}
	case 7:
		return []string{"dealer", "sb", "bb", "ug", "mp", "hj", "co"}
	case 6:
		return []string{"dealer", "sb", "bb", "ug", "hj", "co"}
	case 5:
		return []string{"dealer", "sb", "bb", "ug", "co"}
	case 4:
		return []string{"dealer", "sb", "bb", "ug"}
	case 3:
		return []string{"dealer", "sb", "bb"}
	}
	return nil
}

// expectedLabels computes, from the published button seats and the dealt-in flags only, the label of every dealt-in player.
func expectedLabels(t *pt.Table) (map[string][]string, int, bool, bool, string) {
	n := t.Meta.TableMaxSeatCount
	d, s, b := t.State.CurrentDealerSeat, t.State.CurrentSBSeat, t.State.CurrentBBSeat
	dealtAt := func(seat int) string {
		if seat < 0 || seat >= len(t.State.SeatMap) {
			return ""
		}
		pi := t.State.SeatMap[seat]
		if pi >= 0 && pi < len(t.State.PlayerStates) && t.State.PlayerStates[pi].IsParticipated {
			return t.State.PlayerStates[pi].PlayerID
		}
		return ""
	}
	type slot struct {
		seat int
		id   string
	}
	var slots []slot
	for k := 0; k < n; k++ {
		seat := (b + k) % n
		id := dealtAt(seat)
		if id != "" || seat == d || seat == s {
			slots = append(slots, slot{seat, id})
		}
	}
	deadD := dealtAt(d) == ""
	deadS := dealtAt(s) == ""
	exp := map[string][]string{}
	cnt := len(slots)
	if cnt == 2 {
		if slots[0].id != "" {
			exp[slots[0].id] = []string{"bb"}
		}
		if slots[1].id != "" {
			exp[slots[1].id] = []string{"dealer", "sb"}
		}
		return exp, cnt, deadD, deadS, ""
	}
	std := stdLabels(cnt)
	if std == nil {
		return nil, cnt, deadD, deadS, fmt.Sprintf("no standard order for %d slots", cnt)
	}
	order := append(append([]string{}, std[2:]...), std[:2]...) // bb, ug, ..., dealer, sb
	for i, sl := range slots {
		if sl.id != "" {
			exp[sl.id] = []string{order[i]}
		}
	}
	return exp, cnt, deadD, deadS, ""
}

func c06Opened(p *Play, e *h.Ev) {
	c := p.C
	t := e.T
	if t.Meta.Rule != "default" {
		return
	}
	w := func() interface{} {
		m := p.witness().(map[string]interface{})
		m["opened"] = e.Brief()
		lab := map[string][]string{}
		for _, ps := range t.State.PlayerStates {
			lab[ps.PlayerID] = ps.Positions
		}
		m["labels"] = lab
		return m
	}
	d, s, b := t.State.CurrentDealerSeat, t.State.CurrentSBSeat, t.State.CurrentBBSeat
	n := t.Meta.TableMaxSeatCount
	if d < 0 || d >= n || s < 0 || s >= n || b < 0 || b >= n {
		c.Violate("C06/button-seats-out-of-range", fmt.Sprintf("hand %d: dealer/sb/bb seats %d/%d/%d on a %d-seat table", t.State.GameCount, d, s, b, n), w())
		return
	}
	exp, cnt, deadD, deadS, problem := expectedLabels(t)
	if problem != "" {
		c.Violate("C06/slot-count", fmt.Sprintf("hand %d: %s", t.State.GameCount, problem), w())
		return
	}
	// explicit clauses of the statement, independent of the clockwise walk
	for _, ps := range t.State.PlayerStates {
		if !ps.IsParticipated {
			continue
		}
		hasL := func(l string) bool { return has(ps.Positions, l) }
		switch {
		case ps.Seat == b && !hasL("bb"):
			c.Violate("C06/big-blind-seat-player-not-labelled-bb", fmt.Sprintf("hand %d: %s sits in the big-blind seat %d and is labelled %v", t.State.GameCount, ps.PlayerID, b, ps.Positions), w())
			return
		case ps.Seat == s && ps.Seat != b && !hasL("sb"):
			c.Violate("C06/small-blind-seat-player-not-labelled-sb", fmt.Sprintf("hand %d (dealer/sb/bb seats %d/%d/%d): %s is dealt in, sits in the small-blind seat and is labelled %v", t.State.GameCount, d, s, b, ps.PlayerID, ps.Positions), w())
			return
		case ps.Seat != b && ps.Seat != s && (hasL("bb") || hasL("sb")):
			c.Violate("C06/blind-label-outside-blind-seats", fmt.Sprintf("hand %d (dealer/sb/bb seats %d/%d/%d): %s at seat %d is labelled %v", t.State.GameCount, d, s, b, ps.PlayerID, ps.Seat, ps.Positions), w())
			return
		}
	}
	seen := map[string]string{}
	for _, ps := range t.State.PlayerStates {
		want := exp[ps.PlayerID]
		if !ps.IsParticipated {
			if len(ps.Positions) != 0 {
				c.Violate("C06/label-on-player-not-dealt-in", fmt.Sprintf("hand %d: %s is not dealt in but is labelled %v", t.State.GameCount, ps.PlayerID, ps.Positions), w())
				return
			}
			continue
		}
		if len(ps.Positions) == 0 {
			c.Violate("C06/dealt-in-player-without-label", fmt.Sprintf("hand %d (%d slots, dead dealer %v, dead sb %v): dealt-in player %s (seat %d) has no label, expected %v", t.State.GameCount, cnt, deadD, deadS, ps.PlayerID, ps.Seat, want), w())
			return
		}
		if !reflect.DeepEqual(ps.Positions, want) {
			c.Violate("C06/wrong-label", fmt.Sprintf("hand %d (%d slots, dealer/sb/bb seats %d/%d/%d, dead dealer %v, dead sb %v): %s at seat %d is labelled %v, expected %v", t.State.GameCount, cnt, d, s, b, deadD, deadS, ps.PlayerID, ps.Seat, ps.Positions, want), w())
			return
		}
		for _, l := range ps.Positions {
			if o, dup := seen[l]; dup {
				c.Violate("C06/duplicate-label", fmt.Sprintf("hand %d: %s and %s share label %s", t.State.GameCount, o, ps.PlayerID, l), w())
				return
			}
			seen[l] = ps.PlayerID
		}
	}
	f := fmt.Sprintf("slots=%d", cnt)
	if cnt == 2 {
		f += ",hu"
	}
	if deadD {
		f += ",dead-dealer"
		c.Feature("dead-dealer")
	}
	if deadS {
		f += ",dead-sb"
		c.Feature("dead-sb")
	}
	if cnt == 2 {
		c.Feature("heads-up")
	}
	c.Feature(f)
	sitting := false
	for _, ps := range t.State.PlayerStates {
		if !ps.IsParticipated {
			sitting = true
		}
	}
	if deadD || deadS || sitting || cnt == 2 {
		c.Nontrivial()
	}
	c.Count("opens_checked", 1)
}

func c06AfterHand(p *Play, hd *h.Hand) {
	c := p.C
	if hd.Opened == nil || hd.Settled == nil || hd.Opened.T.Meta.Rule != "default" {
		return
	}
	open := hd.Opened.T
	roster := hd.Roster()
	// labels handed to the hand engine
	if cc := p.CreateCall(hd); cc != nil && cc.Opts != nil && len(cc.Opts.Players) == len(roster) {
		anyDealer := false
		for _, ps := range open.State.PlayerStates {
			if ps.IsParticipated {
				for _, l := range ps.Positions {
					if l == "dealer" {
						anyDealer = true
					}
				}
			}
		}
		for i, st := range cc.Opts.Players {
			pi := h.PlayerIdx(open, roster[i])
			if pi < 0 {
				continue
			}
			want := append([]string{}, open.State.PlayerStates[pi].Positions...)
			if i == 0 && !anyDealer {
				want = append(want, "dealer")
			}
			if !reflect.DeepEqual(append([]string{}, st.Positions...), want) {
				c.Violate("C06/hand-engine-labels-differ", fmt.Sprintf("hand %d entry %d (%s): table labels %v (+dealer on entry 0 when the button is dead), hand engine got %v", p.HandNo, i, roster[i], want, st.Positions), p.witness())
				return
			}
		}
		if hd.FirstPlay != nil && hd.FirstPlay.T.State.GameState != nil {
			for i, gp := range hd.FirstPlay.T.State.GameState.Players {
				if i < len(cc.Opts.Players) && !reflect.DeepEqual(append([]string{}, gp.Positions...), append([]string{}, cc.Opts.Players[i].Positions...)) {
					c.Violate("C06/hand-state-labels-differ", fmt.Sprintf("hand %d entry %d: options %v, hand state %v", p.HandNo, i, cc.Opts.Players[i].Positions, gp.Positions), p.witness())
					return
				}
			}
		}
	}
	// the labels published at open stay put for the whole hand
	for _, e := range hd.Snaps {
		for _, ps := range e.T.State.PlayerStates {
			pi := h.PlayerIdx(open, ps.PlayerID)
			if pi < 0 {
				continue
			}
			if !reflect.DeepEqual(append([]string{}, ps.Positions...), append([]string{}, open.State.PlayerStates[pi].Positions...)) {
				c.Violate("C06/labels-changed-during-hand", fmt.Sprintf("hand %d: %s was labelled %v at open and %v in snapshot #%d (%s)", p.HandNo, ps.PlayerID, open.State.PlayerStates[pi].Positions, ps.Positions, e.Seq, e.T.State.Status), p.witness())
				return
			}
		}
	}
	// next-BB order on the settled snapshot
	st := hd.Settled.T
	n := st.Meta.TableMaxSeatCount
	b := st.State.CurrentBBSeat
	var want []string
	for k := 1; k <= n; k++ {
		seat := (b + k) % n
		if pi := st.State.SeatMap[seat]; pi >= 0 && pi < len(st.State.PlayerStates) && st.State.PlayerStates[pi].Bankroll > 0 {
			want = append(want, st.State.PlayerStates[pi].PlayerID)
		}
	}
	got := st.State.NextBBOrderPlayerIDs
	if len(want) != len(got) || (len(want) > 0 && !reflect.DeepEqual(want, got)) {
		busted := false
		for _, ps := range st.State.PlayerStates {
			if ps.Bankroll == 0 {
				busted = true
			}
		}
		sig := "C06/next-bb-order"
		if busted {
			sig += "/with-busted-player"
		}
		c.Violate(sig, fmt.Sprintf("hand %d: published next-BB order %v, expected (players with chips clockwise from the seat after BB seat %d) %v", p.HandNo, got, b, want), p.witness())
		return
	}
	for _, ps := range st.State.PlayerStates {
		if ps.Bankroll == 0 {
			c.Feature("next-bb-with-busted-player")
		}
	}
	c.Count("hands", 1)
}

func init() {
	h.Register(&h.Check{
		ID:        "C06",
		Level:     "exploration",
		Technique: "runtime monitoring: independent label / next-BB reference model evaluated on every opened and settled snapshot of generated churny tables",
		Rule: "case = one generated default-rule table (seats 2..10) with busts, sit-outs, arrivals and departures between hands; at every open the reference computes the slot count from the published button seats and dealt-in flags and the label of each dealt-in player; " +
			"non-trivial = the table opened a hand with a dead dealer, a dead small blind, heads-up, or a seated player not dealt in; distinct = fingerprint of config+ops+per-hand (slots, dead flags)",
		Assumptions: []string{"short-deck tables are outside the statement (default-rule only)", "the dealt-in flags and button seats of the opened snapshot are taken as given (C04/C05 judge them)"},
		Cases:       func(tier string) int { return map[string]int{"quick": 256, "thorough": 4000}[tier] },
		MinNontrivial: func(tier string) int {
			return map[string]int{"quick": 80, "thorough": 1200}[tier]
		},
		RequiredFeatures: func(tier string) []string {
			f := []string{"dead-dealer", "dead-sb", "heads-up", "next-bb-with-busted-player", "slots=3", "slots=4", "slots=5", "slots=6"}
			if tier == "thorough" {
				f = append(f, "slots=7", "slots=8", "slots=9", "slots=10", "slots=4,dead-dealer", "slots=4,dead-sb") // (three slots with a dead button seat do not occur: the ring collapses to the from-heads-up rule)
			}
			return f
		},
		CaseTimeout: 180e9,
		Run: func(c *h.Ctx) {
			po := PlayOpts{
				Hands:    8 + c.R.Intn(10),
				Churn:    Churn{BetweenP: 0.5, Rebuy: true, BuyIn: true, Leave: true, RandomSeat: true, ResumePaused: true, SitOut: true, Batch: true},
				Gen:      h.GenOpts{MinSeats: 2, Rules: []string{"default"}, ShortStacks: c.R.Intn(2) == 0},
				Policies: []string{"maniac", "callstation", "random", "nit"},
			}
			switch c.Case % 4 {
			case 0:
				po.Gen.MinSeats, po.Gen.FullTable = 6, true
			case 1:
				po.Gen.MinSeats, po.Gen.MaxSeats, po.Gen.FullTable = 3, 5, true
			}
			gc := -1
			mon := &PlayMon{
				AfterHand: c06AfterHand,
				OnEvent: func(p *Play, e *h.Ev) {
					if e.Kind == h.EvTable && e.T != nil && e.T.State.Status == pt.TableStateStatus_TableGameOpened && e.T.State.GameCount != gc && !p.C.Failed() {
						gc = e.T.State.GameCount
						c06Opened(p, e)
						t := e.T
						_, cnt, dd, ds, _ := expectedLabels(t)
						p.C.FP(cnt, dd, ds)
					}
				},
			}
			p := RunPlay(c, po, mon)
			if p == nil {
				return
			}
			c.FP(fmt.Sprintf("%+v", p.Cfg), fmt.Sprintf("%+v", p.Ops))
			if p.Stalled && !c.Failed() {
				c.InconclusiveW(fmt.Sprintf("foreign: hand %d did not settle within the watchdog", p.HandNo), p.witness())
				return
			}
			c.Sample(map[string]interface{}{"cfg": p.Cfg, "hands": len(p.SS.Hands), "ops": trimOps(p.Ops, 10)})
		},
	})
}
