package checks

import (
	"fmt"
	"time"

	pt "github.com/weedbox/pokertable"

	h "verif/harness"
)

// C01 — chips are conserved by hands, top-ups and departures.
//
// Oracle: a per-player ledger kept by the driver. exp[p] starts at the buy-in, grows by every accepted
// re-buy / add-on, is removed (and counted as paid out) on an accepted leave, and after each hand changes
// by exactly Result.Players[i].Changed for roster entry i (roster taken from the opened snapshot, result
// taken from the state the native backend returned). At every quiescent point the table's bankrolls must
// equal exp for exactly the seated players; the hand engine's start stacks must equal the bankrolls at open.

func c01Compare(p *Play, t *pt.Table, where string, sigBase string) bool {
	c := p.C
	seen := map[string]bool{}
	var sum int64
	for _, ps := range t.State.PlayerStates {
		seen[ps.PlayerID] = true
		sum += ps.Bankroll
		want, ok := p.Exp[ps.PlayerID]
		if !ok {
			c.Violate(sigBase+"/unknown-player-at-table", fmt.Sprintf("%s: player %s is seated but the ledger has no record of him", where, ps.PlayerID), p.witness())
			return false
		}
		if ps.Bankroll != want {
			sig := sigBase + "/bankroll-differs-from-ledger"
			if p.HandTopups[ps.PlayerID] != 0 {
				sig += "/player-topped-up-mid-hand"
			}
			c.Violate(sig, fmt.Sprintf("%s: player %s has bankroll %d, ledger says %d (buy-ins+top-ups+hand results)", where, ps.PlayerID, ps.Bankroll, want), p.witness())
			return false
		}
	}
	for id := range p.Exp {
		if !seen[id] {
			c.Violate(sigBase+"/player-lost", fmt.Sprintf("%s: player %s (ledger %d chips) is no longer at the table but never left", where, id, p.Exp[id]), p.witness())
			return false
		}
	}
	if sum != p.In-p.Out {
		c.Violate(sigBase+"/sum-mismatch", fmt.Sprintf("%s: sum of bankrolls %d != brought in %d - taken out %d", where, sum, p.In, p.Out), p.witness())
		return false
	}
	return true
}

func (p *Play) witness() interface{} {
	return map[string]interface{}{
		"cfg":    p.Cfg,
		"ops":    p.Ops,
		"hand":   p.HandNo,
		"policy": p.PolicyName,
		"deck":   p.DeckName,
		"ledger": p.Exp,
		"trace":  p.SS.S.TraceTail(60),
	}
}

func c01Mon() *PlayMon {
	hands := 0
	return &PlayMon{
		AfterOp: func(p *Play, op OpRec) {
			if p.Tainted != "" || op.Phase == "mid" {
				return // mid-hand: judged at settlement
			}
			c01Compare(p, p.SS.S.Table(), fmt.Sprintf("after %s(%s) %s hand %d", op.Kind, op.ID, op.Phase, p.HandNo), "C01")
		},
		AfterHand: func(p *Play, hd *h.Hand) {
			c := p.C
			hands++
			c.Count("hands", 1)
			res, final := p.HandResult(hd)
			if res == nil || hd.Opened == nil {
				c.Inconclusive("hand without opened snapshot or result")
				return
			}
			roster := hd.Roster()
			open := hd.Opened.T
			// (3) start stacks = bankroll at open
			if cc := p.CreateCall(hd); cc != nil && cc.Opts != nil {
				if len(cc.Opts.Players) != len(roster) {
					c.Violate("C01/start-stack/roster-size", fmt.Sprintf("hand %d: %d stacks handed to the hand engine for %d dealt-in players", p.HandNo, len(cc.Opts.Players), len(roster)), p.witness())
					return
				}
				for i, ps := range cc.Opts.Players {
					pi := h.PlayerIdx(open, roster[i])
					if pi < 0 {
						continue
					}
					if ps.Bankroll != open.State.PlayerStates[pi].Bankroll {
						c.Violate("C01/start-stack-differs-from-bankroll", fmt.Sprintf("hand %d entry %d (%s): hand engine starts with %d, bankroll at open %d", p.HandNo, i, roster[i], ps.Bankroll, open.State.PlayerStates[pi].Bankroll), p.witness())
						return
					}
				}
			}
			// (2) sum of changes = 0, one result per entry
			var sum int64
			for _, pr := range res.Players {
				sum += pr.Changed
			}
			if sum != 0 {
				c.Violate("C01/hand-result-not-zero-sum", fmt.Sprintf("hand %d: sum of Changed = %d", p.HandNo, sum), p.witness())
				return
			}
			if len(res.Players) != len(roster) {
				c.Violate("C01/result-entries", fmt.Sprintf("hand %d: %d result entries for %d dealt-in players", p.HandNo, len(res.Players), len(roster)), p.witness())
				return
			}
			// (1)+(2) per-player bankrolls on the settled snapshot and on the live table at Q-between
			if !c01Compare(p, hd.Settled.T, fmt.Sprintf("settled snapshot of hand %d", p.HandNo), "C01/settle") {
				return
			}
			if !c01Compare(p, p.SS.S.Table(), fmt.Sprintf("between hands after hand %d", p.HandNo), "C01/between") {
				return
			}
			// features of this hand
			nt := false
			if final != nil {
				if len(final.Status.Pots) > 1 {
					c.Feature("side-pot")
					nt = true
				}
			}
			winners := 0
			busts := 0
			for _, pr := range res.Players {
				if pr.Changed > 0 {
					winners++
				}
				if pr.Final == 0 {
					busts++
				}
			}
			if winners > 1 {
				c.Feature("split-or-multi-winner")
				nt = true
			}
			if busts > 0 {
				c.Feature("bust")
				nt = true
			}
			if len(p.HandTopups) > 0 {
				c.Feature("mid-hand-topup")
				nt = true
			}
			for _, op := range p.Ops {
				if op.Hand == p.HandNo && (op.Kind == "leave" || op.Kind == "update") && op.Err == "" {
					c.Feature("departure")
					nt = true
				}
			}
			if nt {
				c.Count("nontrivial_hands", 1)
				c.Nontrivial()
			}
		},
	}
}

func init() {
	h.Register(&h.Check{
		ID:        "C01",
		Level:     "exploration",
		Technique: "runtime monitoring: per-player chip ledger checked against the live table at every quiescent point of generated multi-hand tables with churn",
		Rule: "case = one generated table (seats 2..10, mode ct/mtt/cash, default/short-deck, ante/blind structure, unequal stacks from 1 chip) playing up to N hands with PRNG-chosen policy and rigged/seeded deck per hand and random buy-in/re-buy/add-on/leave between and during hands; " +
			"non-trivial = the table played at least one hand with a side pot, a split / multi-winner pot, a bust, a mid-hand top-up or a departure; distinct = fingerprint of (config, op sequence, per-hand roster+result)",
		Assumptions: []string{
			"pokerface's own settlement (Result.Players[i].Changed) is the ground truth for what a hand moves; it is zero-sum (checked on every hand)",
			"the ledger is kept from the driver's own accepted calls; bankroll paid out on leave is the ledger value at that moment",
		},
		Cases: func(tier string) int {
			if tier == "thorough" {
				return 4000
			}
			return 320
		},
		MinNontrivial: func(tier string) int {
			if tier == "thorough" {
				return 1500
			}
			return 100
		},
		RequiredFeatures: func(tier string) []string {
			return []string{"side-pot", "split-or-multi-winner", "bust", "mid-hand-topup", "departure", "batch-leave", "batch-update", "released-while-hand-runs", "top-up-overlapping-the-open", "top-ups-and-departure-during-open-retry", "stacks-above-2^53", "known:dealt-in-leave"}
		},
		CaseTimeout: 180e9,
		Run:         c01Run,
	})
}

// c01TopUpsDuringOpenRetry: the first open is refused (one player seated in) and the engine waits to retry; in that
// wait players top up, one leaves with his chips, the others sit in. Whatever the retry installs, the bankrolls it
// opens the hand with are buy-ins + top-ups of those who stayed.
func c01TopUpsDuringOpenRetry(c *h.Ctx) {
	r := c.R
	cfg := h.GenTable(r, h.GenOpts{MinSeats: 4, MaxSeats: 8, MinPlayers: 4, DeepOnly: true, Modes: []string{"ct", "cash"}})
	cfg.Players = cfg.Players[:4]
	s, err := h.NewSim(h.SimConfig{Setting: cfg.Setting(false), Interval: 0}, r.Int63())
	if err != nil {
		c.Inconclusive(err.Error())
		return
	}
	exp := map[string]int64{}
	for _, pl := range cfg.Players {
		if err := s.Reserve(pl.ID, pl.Seat, pl.Chips); err != nil {
			c.Inconclusive("reserve: " + err.Error())
			return
		}
		exp[pl.ID] = pl.Chips
	}
	s.Join(cfg.Players[0].ID)
	s.TE.StartTableGame()
	e, ok := s.WaitFor(5*time.Second, func(e *h.Ev) bool { return e.Kind == h.EvSetup }, nil)
	if !ok {
		c.Inconclusive("no set-up")
		return
	}
	s.SignalAll(h.SetupIDs(e.Setup))
	if _, ok := s.WaitFor(5*time.Second, func(e *h.Ev) bool { return e.Kind == h.EvGateFire }, nil); !ok {
		c.Inconclusive("gate did not fire")
		return
	}
	time.Sleep(time.Duration(200+r.Intn(1200)) * time.Millisecond)
	var ops []string
	for k := 0; k < 3; k++ {
		id := cfg.Players[r.Intn(3)].ID
		chips := int64(1 + r.Intn(900))
		var err error
		if r.Intn(2) == 0 {
			err = s.Reserve(id, -1, chips)
			ops = append(ops, fmt.Sprintf("re-buy %s %d -> %v", id, chips, err))
		} else {
			err = s.Redeem(id, chips)
			ops = append(ops, fmt.Sprintf("add-on %s %d -> %v", id, chips, err))
		}
		if err == nil {
			exp[id] += chips
		}
	}
	leaver := cfg.Players[3].ID
	if r.Intn(3) != 0 {
		leaver = ""
	}
	if leaver == "" {
		// nobody leaves in this case
	} else if err := s.Leave(leaver); err == nil {
		delete(exp, leaver)
		ops = append(ops, "leave "+leaver)
	}
	for _, pl := range cfg.Players[1:3] {
		s.TE.PlayerJoin(pl.ID)
		time.Sleep(400 * time.Microsecond)
	}
	var oe *h.Ev
	s.WaitFor(9*time.Second, func(e *h.Ev) bool {
		if e.Kind == h.EvTable && e.T != nil && e.T.State.Status == pt.TableStateStatus_TableGameOpened {
			oe = e
		}
		return oe != nil
	}, nil)
	if oe == nil {
		c.InconclusiveW("foreign: the retry did not open the hand within 9 s", map[string]interface{}{"cfg": cfg, "ops": ops, "trace": s.TraceTail(30)})
		return
	}
	w := map[string]interface{}{"cfg": cfg, "operations_during_the_wait": ops, "ledger": exp, "opened": oe.Brief()}
	seen := map[string]bool{}
	for _, ps := range oe.T.State.PlayerStates {
		seen[ps.PlayerID] = true
		want, ok := exp[ps.PlayerID]
		if !ok {
			c.Violate("C01/open-retry/unknown-player-at-table", fmt.Sprintf("%s left while the engine waited to retry the open and is seated again with %d chips in the hand the retry opened", ps.PlayerID, ps.Bankroll), w)
			return
		}
		if ps.Bankroll != want {
			c.Violate("C01/open-retry/bankroll-differs-from-ledger", fmt.Sprintf("%s has %d chips in the hand the retry opened; buy-in plus the top-ups accepted while the engine waited make %d", ps.PlayerID, ps.Bankroll, want), w)
			return
		}
	}
	for id := range exp {
		if !seen[id] {
			c.Violate("C01/open-retry/player-lost", fmt.Sprintf("%s is missing from the hand the retry opened", id), w)
			return
		}
	}
	c.Feature("top-ups-and-departure-during-open-retry")
	c.Nontrivial()
	c.FP("open-retry", fmt.Sprintf("%+v", cfg), fmt.Sprint(ops))
	c.Sample(map[string]interface{}{"kind": "top-ups / departure while the engine waits to retry a refused open", "ops": ops})
}

func c01Run(c *h.Ctx) {
	if c.Case%40 == 11 {
		c01TopUpsDuringOpenRetry(c)
		return
	}
	// a fixed share of cases reproduces the recorded finding (dealt-in player leaves mid-hand)
	if c.Case%40 == 7 {
		c01KnownDealtInLeave(c)
		return
	}
	po := PlayOpts{
		Hands: 6 + c.R.Intn(10),
		Churn: Churn{BetweenP: 0.6, MidP: 0.12, Rebuy: true, AddOn: true, BuyIn: true, Leave: true, MidTopup: true, MidJoin: true, MidLeaveOther: true, RandomSeat: true, ResumePaused: true, SitOut: true, Batch: true, OverlapOpen: 0.35},
		Gen:   h.GenOpts{VaryMinCount: true},
	}
	if c.R.Intn(3) == 0 {
		po.Gen.ShortStacks = true
	}
	if c.Case%16 == 5 {
		// stacks above 2^53 (odd amounts): a chip count that passes through a floating-point number anywhere (the
		// engine copies its table through JSON at every open) is rounded (round 7)
		po.Gen.Whales = true
		c.Feature("stacks-above-2^53")
	}
	mon := c01Mon()
	if c.Case%8 == 3 {
		// the engine is released while the last hand runs (the competition is over): the hand is still played
		// out and must be settled like any other completed hand
		released := false
		relHand := 2 + c.R.Intn(3)
		mon.BeforeAct = func(p *Play, e *h.Ev, gp int, pid string) bool {
			if !released && p.HandNo >= relHand {
				released = true
				p.SS.S.TE.ReleaseTable()
				c.Feature("released-while-hand-runs")
			}
			return true
		}
		mon.OnEvent = func(p *Play, e *h.Ev) {
			// a released engine neither pauses nor sets the next hand up: the run ends with this hand's settlement
			if released && e.Kind == h.EvState && e.Name == "GameSettled" {
				p.StopNow = true
			}
		}
	}
	p := RunPlay(c, po, mon)
	if p == nil {
		return
	}
	c.FP(fmt.Sprintf("%+v", p.Cfg), fmt.Sprintf("%+v", p.Ops), len(p.SS.Hands))
	for _, hd := range p.SS.Hands {
		if hd.Settled != nil && hd.Settled.T != nil && hd.Settled.T.State.GameState != nil && hd.Settled.T.State.GameState.Result != nil {
			for _, pr := range hd.Settled.T.State.GameState.Result.Players {
				c.FP(pr.Changed)
			}
		}
	}
	if p.Stalled && !c.Failed() {
		// a hand that ran to its end (the hand engine produced a result) but whose result never reached the bankrolls
		if t := p.SS.S.Table(); t.State.GameState != nil && t.State.GameState.Status.CurrentEvent == "GameClosed" && t.State.GameState.Result != nil {
			for _, pr := range t.State.GameState.Result.Players {
				if pr.Changed != 0 {
					c.Violate("C01/completed-hand-never-settled", fmt.Sprintf("hand %d is complete (hand engine result: entry %d changed by %+d ...) but the table never settled it: status %s, bankrolls unchanged", p.HandNo, pr.Idx, pr.Changed, t.State.Status), p.witness())
					return
				}
			}
		}
		c.InconclusiveW(fmt.Sprintf("foreign: hand %d did not settle within the watchdog (liveness is C08/C11's subject)", p.HandNo), p.witness())
		return
	}
	c.Sample(map[string]interface{}{"cfg": p.Cfg, "hands": len(p.SS.Hands), "ops": trimOps(p.Ops, 12), "in": p.In, "out": p.Out, "ledger": p.Exp})
}

func trimOps(ops []OpRec, n int) []OpRec {
	if len(ops) > n {
		return ops[:n]
	}
	return ops
}

// c01KnownDealtInLeave: a dealt-in player leaves while the hand runs. Recorded finding: the hand's player
// list shrinks, later entries denote other players and the ledger breaks (or the engine crashes at settlement).
func c01KnownDealtInLeave(c *h.Ctx) {
	cfg := h.GenTable(c.R, h.GenOpts{MinSeats: 4, MaxSeats: 9, MinPlayers: 4, Rules: []string{"default"}, DeepOnly: true, NoAnte: true})
	left := false
	mon := c01Mon()
	baseAfter := mon.AfterHand
	mon.BeforeAct = func(p *Play, e *h.Ev, gp int, pid string) bool {
		if left || p.HandNo != 2 {
			return true
		}
		// entry 1 of the running hand leaves (not the player to act)
		t := e.T
		victim := h.PidOf(t, 1)
		if victim == pid {
			victim = h.PidOf(t, 2)
		}
		if victim == "" {
			return true
		}
		left = true
		p.C.CrashContext("dealt-in-player-left-mid-hand")
		p.Tainted = "dealt-in-player-left-mid-hand"
		p.Leave("mid", victim)
		return true
	}
	mon.AfterHand = func(p *Play, hd *h.Hand) {
		if p.Tainted == "" {
			baseAfter(p, hd)
			return
		}
		// judge the tainted hand only to see whether the recorded finding shows; nothing after it is judged
		t := hd.Settled.T
		bad := ""
		var sum int64
		for _, ps := range t.State.PlayerStates {
			sum += ps.Bankroll
			if want, ok := p.Exp[ps.PlayerID]; ok && want != ps.Bankroll {
				bad = fmt.Sprintf("player %s has %d, ledger %d", ps.PlayerID, ps.Bankroll, want)
			}
		}
		if bad != "" || sum != p.In-p.Out {
			p.C.KnownOrViolate("C01/dealt-in-player-left-mid-hand", "after a dealt-in player left during the hand the hand's entries denote other players: "+bad+fmt.Sprintf(" (sum %d, in-out %d)", sum, p.In-p.Out), p.witness())
		}
	}
	p := RunPlayCfg(c, cfg, PlayOpts{Hands: 2, Policies: []string{"callstation"}, Decks: []string{"seeded"}, MaxWait: 8e9}, mon)
	if p == nil {
		return
	}
	if left {
		c.Feature("known:dealt-in-leave")
		if p.Stalled {
			c.KnownOrViolate("C01/dealt-in-player-left-mid-hand", "after a dealt-in player left during the hand the hand stalls: the entry of the departed player can no longer act", p.witness())
		}
	}
	c.Sample(map[string]interface{}{"cfg": p.Cfg, "scenario": "dealt-in player leaves mid-hand (recorded finding)", "ops": p.Ops})
}
