package checks

import (
	"fmt"
	"time"

	pt "github.com/weedbox/pokertable"

	h "verif/harness"
)

// C07 — table status follows its life cycle; one hand at a time; hands are numbered; per-hand fields reset.

type c07Obs struct {
	gc        int
	rank      int // 1 opened, 2 playing, 3 settled, 4 standby/pausing
	gameID    map[int]string
	ids       map[string]int
	settled   map[int]bool
	opened    map[int]int
	lastGC    int
	started   bool
	external  bool // an external pause/close/release was issued: the life-cycle order is no longer judged
	maxSerial int64
	seq       []string
}

func newC07Obs() *c07Obs {
	return &c07Obs{gameID: map[int]string{}, ids: map[string]int{}, settled: map[int]bool{}, opened: map[int]int{}}
}

func statusRank(s pt.TableStateStatus) int {
	switch s {
	case pt.TableStateStatus_TableGameOpened:
		return 1
	case pt.TableStateStatus_TableGamePlaying:
		return 2
	case pt.TableStateStatus_TableGameSettled:
		return 3
	case pt.TableStateStatus_TableGameStandby, pt.TableStateStatus_TablePausing:
		return 4
	}
	return 0
}

func zeroStats(ps *pt.TablePlayerState) bool {
	return ps.GameStatistics == pt.NewPlayerGameStatistics()
}

func (o *c07Obs) event(p *Play, e *h.Ev) {
	if (e.Kind != h.EvTable && e.Kind != h.EvState) || e.T == nil || p.C.Failed() || o.external {
		return
	}
	c := p.C
	t := e.T
	// the two notification channels (table updated / table state updated) are served by different engine goroutines:
	// a state notification prepared before an open can be delivered after the opened snapshot. The table's own update
	// serial orders them; a delivery older than what has been seen already says nothing new.
	if int64(t.UpdateSerial) < o.maxSerial {
		c.Count("stale_deliveries_skipped", 1)
		return
	}
	o.maxSerial = int64(t.UpdateSerial)
	st := t.State
	gc := st.GameCount
	rk := statusRank(st.Status)
	o.seq = append(o.seq, fmt.Sprintf("#%d %s gc=%d", e.Seq, st.Status, gc))
	if len(o.seq) > 60 {
		o.seq = o.seq[len(o.seq)-60:]
	}
	w := func() interface{} {
		m := p.witness().(map[string]interface{})
		m["status_sequence"] = o.seq
		return m
	}
	if gc < o.lastGC {
		c.Violate("C07/game-count-decreased", fmt.Sprintf("game count went from %d to %d (#%d)", o.lastGC, gc, e.Seq), w())
		return
	}
	if gc > o.lastGC {
		if gc != o.lastGC+1 {
			c.Violate("C07/game-count-jumped", fmt.Sprintf("game count went from %d to %d", o.lastGC, gc), w())
			return
		}
		if st.Status != pt.TableStateStatus_TableGameOpened {
			c.Violate("C07/game-count-raised-without-open", fmt.Sprintf("game count %d first seen with status %s", gc, st.Status), w())
			return
		}
		if o.lastGC >= 1 && !o.settled[o.lastGC] {
			c.Violate("C07/hand-opened-while-previous-unsettled", fmt.Sprintf("hand %d opened but hand %d was never seen settled", gc, o.lastGC), w())
			return
		}
		o.lastGC = gc
		o.rank = 0
		// per-hand fields at open
		for _, ps := range st.PlayerStates {
			if !zeroStats(ps) {
				c.Violate("C07/statistics-not-reset-at-open", fmt.Sprintf("hand %d opens but %s still carries statistics %+v", gc, ps.PlayerID, ps.GameStatistics), w())
				return
			}
			if !ps.IsParticipated && len(ps.Positions) != 0 {
				c.Violate("C07/labels-not-reset-at-open", fmt.Sprintf("hand %d opens but %s (not dealt in) is labelled %v", gc, ps.PlayerID, ps.Positions), w())
				return
			}
		}
		if st.CurrentActionEndAt != 0 || st.LastPlayerGameAction != nil {
			c.Violate("C07/deadline-or-last-action-not-reset-at-open", fmt.Sprintf("hand %d opens with deadline %d, last action %v", gc, st.CurrentActionEndAt, st.LastPlayerGameAction), w())
			return
		}
	}
	if rk == 1 {
		o.opened[gc]++
	}
	if gc >= 1 && rk > 0 {
		if rk < o.rank {
			c.Violate("C07/status-went-backwards", fmt.Sprintf("hand %d: status %s observed after a later stage (#%d)", gc, st.Status, e.Seq), w())
			return
		}
		o.rank = rk
	}
	if rk == 3 {
		o.settled[gc] = true
	}
	if st.GameState != nil && st.GameState.GameID != "" {
		id := st.GameState.GameID
		if gc < 1 {
			c.Violate("C07/hand-opened-without-raising-game-count", fmt.Sprintf("a hand (game id %s, status %s) is attached while the game count is %d", id, st.Status, gc), w())
			return
		}
		if prev, ok := o.gameID[gc]; ok && prev != id {
			c.Violate("C07/two-game-ids-for-one-hand", fmt.Sprintf("hand %d carries game id %s and %s", gc, prev, id), w())
			return
		}
		if g2, ok := o.ids[id]; ok && g2 != gc {
			c.Violate("C07/game-id-reused", fmt.Sprintf("game id %s used for hands %d and %d", id, g2, gc), w())
			return
		}
		o.gameID[gc] = id
		o.ids[id] = gc
		if rk == 4 {
			c.Violate("C07/hand-state-attached-between-hands", fmt.Sprintf("status %s with a hand state attached", st.Status), w())
			return
		}
	}
}

// between checks the per-hand fields on the live table at a quiescent point between hands.
func c07Between(p *Play, where string) {
	c := p.C
	t := p.SS.S.Table()
	st := t.State
	bad := ""
	switch {
	case st.GameState != nil:
		bad = "hand state still attached"
	case len(st.GamePlayerIndexes) != 0:
		bad = fmt.Sprintf("hand player list %v", st.GamePlayerIndexes)
	case st.CurrentActionEndAt != 0:
		bad = fmt.Sprintf("action deadline %d", st.CurrentActionEndAt)
	case st.LastPlayerGameAction != nil:
		bad = "last player action still set"
	}
	for _, ps := range st.PlayerStates {
		if len(ps.Positions) != 0 {
			bad = fmt.Sprintf("%s still labelled %v", ps.PlayerID, ps.Positions)
		}
		if !zeroStats(ps) {
			bad = fmt.Sprintf("%s still has statistics %+v", ps.PlayerID, ps.GameStatistics)
		}
	}
	if bad != "" {
		c.Violate("C07/per-hand-fields-not-reset-between-hands", fmt.Sprintf("%s (status %s, game count %d): %s", where, st.Status, st.GameCount, bad), p.witness())
	}
	c.Count("between_checks", 1)
}

func c07Normal(c *h.Ctx, interval int) {
	obs := newC07Obs()
	po := PlayOpts{
		Hands: 5 + c.R.Intn(8),
		Churn: Churn{BetweenP: 0.4, MidP: 0.05, Rebuy: true, AddOn: true, BuyIn: true, Leave: true, MidTopup: true, MidJoin: true, RandomSeat: true, ResumePaused: true, Batch: true},
		Gen:   h.GenOpts{Interval: interval, ShortStacks: c.R.Intn(2) == 0},
	}
	if interval > 0 {
		po.Hands = 2 + c.R.Intn(2)
		po.Churn.BetweenP = 0.2
	}
	mon := &PlayMon{
		OnEvent: func(p *Play, e *h.Ev) { obs.event(p, e) },
		AfterHand: func(p *Play, hd *h.Hand) {
			c07Between(p, fmt.Sprintf("after hand %d", p.HandNo))
			if hd.Paused != nil {
				c.Feature("paused-after-hand")
			}
		},
	}
	p := RunPlay(c, po, mon)
	if p == nil {
		return
	}
	c.FP(fmt.Sprintf("%+v", p.Cfg), fmt.Sprintf("%+v", p.Ops), len(p.SS.Hands), interval)
	if p.Stalled && !c.Failed() {
		c.InconclusiveW(fmt.Sprintf("foreign: hand %d did not settle within the watchdog", p.HandNo), p.witness())
		return
	}
	if len(p.SS.Hands) >= 2 {
		c.Nontrivial()
	}
	c.Feature(fmt.Sprintf("lifecycle:interval=%d", interval))
	c.Count("hands", int64(len(p.SS.Hands)))
	c.Sample(map[string]interface{}{"kind": "life cycle", "cfg": p.Cfg, "hands": len(p.SS.Hands), "status_sequence_tail": obs.seq[maxInt(0, len(obs.seq)-12):]})
}

func maxInt(a, b int) int {
	if a > b {
		return a
	}
	return b
}

// playOneAndStop plays n hands on a fresh deep-stack table and returns at Q-between with the next set-up pending.
func c07Table(c *h.Ctx, interval int, hands int, obs *c07Obs) *Play {
	po := PlayOpts{Hands: hands, Policies: []string{"callstation", "nit"}, Decks: []string{"seeded"}, Gen: h.GenOpts{MinSeats: 3, MinPlayers: 3, DeepOnly: true, Interval: interval, Modes: []string{"ct", "cash", "mtt"}}}
	mon := &PlayMon{OnEvent: func(p *Play, e *h.Ev) {
		if obs != nil {
			obs.event(p, e)
		}
	}}
	p := RunPlay(c, po, mon)
	if p == nil {
		return nil
	}
	if p.Stalled || p.SS.Pending == nil {
		c.InconclusiveW("foreign: could not reach the between-hands point", p.witness())
		return nil
	}
	return p
}

// noOpenAfter drives the gate to fire (signals) and asserts that no hand opens.
func c07NoOpenAfter(c *h.Ctx, p *Play, sig, what string) {
	s := p.SS.S
	gcBefore := s.TE.GetTable().State.GameCount
	ids := h.SetupIDs(p.SS.Pending)
	s.SignalAll(ids)
	// logical end: the gate callback has returned (or the 2 s gate timeout passed)
	opened := false
	_, fired := s.WaitFor(4*time.Second, func(e *h.Ev) bool {
		if e.Kind == h.EvTable && e.T != nil && e.T.State.Status == pt.TableStateStatus_TableGameOpened && e.T.State.GameCount > gcBefore {
			opened = true
		}
		return e.Kind == h.EvGateRet || opened
	}, nil)
	if !opened {
		// anything queued behind the gate callback
		time.Sleep(20 * time.Millisecond)
		s.Drain(func(e *h.Ev) {
			if e.Kind == h.EvTable && e.T != nil && e.T.State.GameCount > gcBefore {
				opened = true
			}
		})
	}
	if opened || s.TE.GetTable().State.GameCount > gcBefore {
		c.Violate(sig, what+fmt.Sprintf(": a hand opened anyway (game count %d -> %d)", gcBefore, s.TE.GetTable().State.GameCount), p.witness())
		return
	}
	if !fired {
		c.Count("gate_never_fired", 1)
	}
}

func c07CloseRelease(c *h.Ctx) {
	variant := c.R.Intn(4)
	interval := 0
	if variant >= 2 {
		interval = 1
	}
	if interval == 0 {
		p := c07Table(c, 0, 1+c.R.Intn(2), nil)
		if p == nil {
			return
		}
		if variant == 0 {
			p.SS.S.TE.CloseTable()
			c.Feature("close-after-set-up")
			c07NoOpenAfter(c, p, "C07/hand-opened-after-close", "table closed between hands after the next hand had been set up")
		} else {
			p.SS.S.TE.ReleaseTable()
			c.Feature("release-after-set-up")
			c07NoOpenAfter(c, p, "C07/hand-opened-after-release", "table released between hands after the next hand had been set up")
		}
		c.Nontrivial()
		c.FP("closerelease", variant, fmt.Sprintf("%+v", p.Cfg))
		c.Sample(map[string]interface{}{"kind": "close/release after set-up", "variant": variant, "cfg": p.Cfg})
		return
	}
	// interval 1: close / release during the continue delay -> no set-up at all
	cfg := h.GenTable(c.R, h.GenOpts{MinSeats: 3, MinPlayers: 3, DeepOnly: true, Interval: 1, Modes: []string{"ct", "cash"}})
	ss, err := h.StartSession(cfg, c.R, nil)
	if err != nil {
		c.Inconclusive("start: " + err.Error())
		return
	}
	hd := ss.NextHand(&h.Script{Policy: h.CallStation, StopAfterSettle: true, MaxWait: 15 * time.Second})
	if hd.Settled == nil {
		c.Inconclusive("foreign: hand did not settle")
		return
	}
	brk := c.R.Intn(2) == 0
	if brk {
		// the level is a break as well: when the continue handler runs it would have to pause - but not a closed table
		setBreak(ss.S.TE, c.R)
	}
	if variant == 2 {
		ss.S.TE.CloseTable()
		c.Feature("close-during-continue-delay")
	} else {
		ss.S.TE.ReleaseTable()
		c.Feature("release-during-continue-delay")
	}
	bad := ""
	ss.S.WaitFor(2500*time.Millisecond, func(e *h.Ev) bool {
		if e.Kind == h.EvSetup {
			bad = "the next hand was set up"
		}
		if e.Kind == h.EvTable && e.T != nil && e.T.State.Status == pt.TableStateStatus_TableGameOpened && e.T.State.GameCount > 1 {
			bad = "a hand opened"
		}
		return bad != ""
	}, nil)
	if bad != "" {
		sig := "C07/hand-opened-after-close"
		if variant == 3 {
			sig = "C07/hand-opened-after-release"
		}
		c.Violate(sig+"/during-continue-delay", "table closed/released during the continue delay but "+bad, map[string]interface{}{"cfg": cfg, "trace": ss.S.TraceTail(40)})
		return
	}
	// (which status a closed table shows afterwards is not part of the statement: the engine's own continue step may
	// still write its stand-by status over it; only hands and set-ups are judged)
	if brk {
		c.Feature("close-or-release-during-continue-delay-on-a-break")
	}
	c.Nontrivial()
	c.FP("closerelease", variant, fmt.Sprintf("%+v", cfg))
	c.Sample(map[string]interface{}{"kind": "close/release during continue delay", "variant": variant, "cfg": cfg})
}

func c07Break(c *h.Ctx) {
	p := c07Table(c, 0, 1, nil)
	if p == nil {
		return
	}
	s := p.SS.S
	// the level becomes a break after the next hand had been set up
	setBreak(s.TE, c.R)
	c.Feature("break-after-set-up")
	c07NoOpenAfter(c, p, "C07/hand-opened-on-break-level", "blind level set to break between hands")
	if c.Failed() {
		return
	}
	// an explicit set-up on a break must not open either
	t := s.TE.GetTable()
	parts := map[string]int{}
	for i, id := range inAndChips(t) {
		parts[id] = i
	}
	s.TE.SetUpTableGame(t.State.GameCount+1, parts)
	if e, ok := s.WaitFor(3*time.Second, func(e *h.Ev) bool { return e.Kind == h.EvSetup }, nil); ok {
		p.SS.Pending = e.Setup
		c07NoOpenAfter(c, p, "C07/hand-opened-on-break-level", "explicit set-up while the blind level is a break")
	}
	c.Nontrivial()
	c.FP("break", fmt.Sprintf("%+v", p.Cfg))
	c.Sample(map[string]interface{}{"kind": "break level", "cfg": p.Cfg})
}

func c07BlindsUnset(c *h.Ctx) {
	cfg := h.GenTable(c.R, h.GenOpts{MinSeats: 3, MinPlayers: 3, DeepOnly: true, Modes: []string{"ct", "cash"}})
	cfg.Level = 0
	if c.R.Intn(2) == 0 {
		cfg.Ante, cfg.Dealer, cfg.SB, cfg.BB = 0, 0, 0, 0 // the zero value of a blind state
	}
	s, err := h.NewSim(h.SimConfig{Setting: cfg.Setting(false), Interval: 0}, c.R.Int63())
	if err != nil {
		c.Inconclusive(err.Error())
		return
	}
	for _, pl := range cfg.Players {
		s.Seat(pl.ID, pl.Seat, pl.Chips)
	}
	s.TE.StartTableGame()
	e, ok := s.WaitFor(5*time.Second, func(e *h.Ev) bool { return e.Kind == h.EvSetup }, nil)
	if !ok {
		c.Inconclusive("no set-up")
		return
	}
	s.SignalAll(h.SetupIDs(e.Setup))
	opened := false
	// the engine retries every 3 s for 30 s and the gate callback returns afterwards; the quick tier only watches
	// the first attempt and the first retry (a hand that opens later is missed, never invented)
	// thorough: a quarter of these cases watch the whole 30 s retry loop (and end there: the engine has given up by
	// then); the others, like quick, go on with what happens inside the retry wait
	long := c.Thorough() && (c.Case/32)%8 == 0
	watch := 4500 * time.Millisecond
	if long {
		watch = 45 * time.Second
	}
	s.WaitFor(watch, func(e *h.Ev) bool {
		if e.Kind == h.EvTable && e.T != nil && e.T.State.Status == pt.TableStateStatus_TableGameOpened {
			opened = true
		}
		return e.Kind == h.EvGateRet || opened
	}, nil)
	if opened {
		c.Violate("C07/hand-opened-before-blinds-set", "blind level 0 (unset) but a hand opened", map[string]interface{}{"cfg": cfg, "trace": s.TraceTail(30)})
		return
	}
	c.Feature("blinds-unset")
	c.Nontrivial()
	c.FP("unset", fmt.Sprintf("%+v", cfg))
	// the blind level arrives while the engine waits to retry: the hand the retry opens is hand 1, with a fresh id;
	// in two of three cases the table is closed / released in the same wait, and then nothing may open
	if !long {
		bb := int64(20)
		switch (c.Case / 32) % 4 {
		case 3:
			// a second trigger opens the hand while the first one is still waiting to retry: the level arrives, the hand
			// is set up again and everybody signals. When the first trigger wakes up it must find the hand running.
			s.TE.UpdateBlind(1, 0, 0, bb/2, bb)
			parts := map[string]int{}
			for i, pl := range cfg.Players {
				parts[pl.ID] = i
			}
			s.TE.SetUpTableGame(1, parts)
			for _, pl := range cfg.Players {
				s.TE.PlayerSettlementFinish(pl.ID)
			}
			opens, lastGC := 0, 0
			ids := map[string]bool{}
			s.WaitFor(5*time.Second, func(e *h.Ev) bool {
				if e.Kind == h.EvTable && e.T != nil {
					if e.T.State.GameCount > lastGC {
						lastGC = e.T.State.GameCount
					}
					if gs := e.T.State.GameState; gs != nil && gs.GameID != "" && !ids[gs.GameID] {
						ids[gs.GameID] = true
						opens++
					}
				}
				return false
			}, nil)
			if opens > 1 || lastGC > 1 {
				c.Violate("C07/hand-opened-while-previous-unsettled/by-the-waiting-retry", fmt.Sprintf("a second trigger opened hand 1 while the first one was waiting to retry its failed open; 5 s later %d hands (game ids) have been opened, game count %d, and hand 1 was never settled", opens, lastGC), map[string]interface{}{"cfg": cfg, "trace": s.TraceTail(40)})
				return
			}
			if opens == 1 {
				c.Feature("second-trigger-opened-the-hand-during-the-retry-wait")
			}
			return
		case 1:
			s.TE.CloseTable()
			time.Sleep(time.Duration(c.R.Intn(300)) * time.Millisecond)
			s.TE.UpdateBlind(1, 0, 0, bb/2, bb)
			c07NoOpenAfterRetry(c, s, cfg, "closed")
			return
		case 2:
			s.TE.ReleaseTable()
			time.Sleep(time.Duration(c.R.Intn(300)) * time.Millisecond)
			s.TE.UpdateBlind(1, 0, 0, bb/2, bb)
			c07NoOpenAfterRetry(c, s, cfg, "released")
			return
		}
		s.TE.UpdateBlind(1, 0, 0, bb/2, bb)
		var oe *h.Ev
		s.WaitFor(8*time.Second, func(e *h.Ev) bool {
			if e.Kind == h.EvTable && e.T != nil && e.T.State.Status == pt.TableStateStatus_TableGameOpened {
				oe = e
			}
			return oe != nil || e.Kind == h.EvGateRet
		}, nil)
		if oe != nil {
			c.Feature("opened-by-retry-after-blinds-arrived")
			st := oe.T.State
			if st.GameCount != 1 {
				c.Violate("C07/game-count-not-raised-by-one/opened-by-retry", fmt.Sprintf("the first hand, opened by the engine's retry once the blind level had arrived, carries game count %d", st.GameCount), map[string]interface{}{"cfg": cfg, "trace": s.TraceTail(30)})
				return
			}
			if st.BlindState.Level != 1 {
				c.Violate("C07/hand-opened-before-blinds-set", fmt.Sprintf("hand opened by the retry at blind level %d", st.BlindState.Level), map[string]interface{}{"cfg": cfg, "trace": s.TraceTail(30)})
				return
			}
		}
	}
	c.Sample(map[string]interface{}{"kind": "blinds unset", "cfg": cfg})
}

// c07RefusedOpen: the first open is refused by the seat manager (only one player has sat in). The table must not
// show a hand that does not exist (status opened / playing without a hand state or a raised game count); when the
// others sit in, the hand the retry opens is hand 1.
func c07RefusedOpen(c *h.Ctx) {
	r := c.R
	cfg := h.GenTable(r, h.GenOpts{MinSeats: 3, MaxSeats: 7, MinPlayers: 3, DeepOnly: true, Modes: []string{"ct", "cash"}})
	s, err := h.NewSim(h.SimConfig{Setting: cfg.Setting(false), Interval: 0}, r.Int63())
	if err != nil {
		c.Inconclusive(err.Error())
		return
	}
	for _, pl := range cfg.Players {
		s.Reserve(pl.ID, pl.Seat, pl.Chips)
	}
	s.Join(cfg.Players[0].ID)
	s.TE.StartTableGame()
	e, ok := s.WaitFor(5*time.Second, func(e *h.Ev) bool { return e.Kind == h.EvSetup }, nil)
	if !ok {
		c.Inconclusive("no set-up")
		return
	}
	s.SignalAll(h.SetupIDs(e.Setup))
	if _, ok := s.WaitFor(5*time.Second, func(e *h.Ev) bool { return e.Kind == h.EvGateFire }, nil); !ok {
		c.Inconclusive("gate did not fire")
		return
	}
	time.Sleep(time.Duration(300+r.Intn(1200)) * time.Millisecond)
	w := func() interface{} { return map[string]interface{}{"cfg": cfg, "trace": s.TraceTail(30)} }
	t := s.TE.GetTable()
	if rk := statusRank(t.State.Status); (rk >= 1 && rk <= 3) && (t.State.GameState == nil || t.State.GameCount == 0) {
		c.Violate("C07/status-of-a-hand-without-a-hand", fmt.Sprintf("the first open was refused (one player seated in) and the table shows status %s with game count %d and hand state present=%v", t.State.Status, t.State.GameCount, t.State.GameState != nil), w())
		return
	}
	for _, pl := range cfg.Players[1:] {
		s.TE.PlayerJoin(pl.ID)
		time.Sleep(400 * time.Microsecond)
	}
	var oe *h.Ev
	s.WaitFor(9*time.Second, func(e *h.Ev) bool {
		if e.Kind == h.EvTable && e.T != nil && e.T.State.Status == pt.TableStateStatus_TableGameOpened {
			oe = e
		}
		return oe != nil
	}, nil)
	if oe != nil {
		if oe.T.State.GameCount != 1 {
			c.Violate("C07/game-count-not-raised-by-one/opened-by-retry", fmt.Sprintf("the first hand, opened by the retry after the others had sat in, carries game count %d", oe.T.State.GameCount), w())
			return
		}
		c.Feature("opened-by-retry-after-late-sitters")
	}
	c.Feature("first-open-refused-by-seat-manager")
	c.Nontrivial()
	c.FP("refused-open", fmt.Sprintf("%+v", cfg))
	c.Sample(map[string]interface{}{"kind": "first open refused by the seat manager, others sit in during the wait", "cfg": cfg, "opened": oe != nil})
}

// c07NoOpenAfterRetry: the table was closed / released and the blind level arrived while the engine was waiting to
// retry a failed open: the retry (at most 3.3 s away) must not open a hand.
func c07NoOpenAfterRetry(c *h.Ctx, s *h.Sim, cfg h.TableCfg, what string) {
	var oe *h.Ev
	s.WaitFor(7*time.Second, func(e *h.Ev) bool {
		if e.Kind == h.EvTable && e.T != nil && e.T.State.Status == pt.TableStateStatus_TableGameOpened {
			oe = e
		}
		return oe != nil || e.Kind == h.EvGateRet
	}, nil)
	if oe != nil || s.TE.GetTable().State.GameCount > 0 {
		c.Violate("C07/hand-opened-after-"+map[string]string{"closed": "close", "released": "release"}[what]+"/during-open-retry", fmt.Sprintf("the table was %s while the engine was waiting to retry a failed open; the blind level then arrived and the retry opened a hand (game count %d)", what, s.TE.GetTable().State.GameCount), map[string]interface{}{"cfg": cfg, "trace": s.TraceTail(30)})
		return
	}
	c.Feature(what + "-during-open-retry")
}

// c07DoubleFire: a second set-up for the same hand plus all signals right after the first gate fire.
func c07DoubleFire(c *h.Ctx) {
	obs := newC07Obs()
	p := c07Table(c, 0, 1, obs)
	if p == nil {
		return
	}
	s := p.SS.S
	trials := 0
	for k := 0; k < 12 && !c.Failed(); k++ {
		if p.SS.Pending == nil {
			break
		}
		su := p.SS.Pending
		ids := h.SetupIDs(su)
		gc0 := s.TE.GetTable().State.GameCount
		s.SignalAll(ids) // first fire
		d := time.Duration(c.R.Intn(2000)) * time.Microsecond
		time.Sleep(d)
		s.TE.SetUpTableGame(su.GameCount, su.Participants) // the same hand again
		for _, id := range ids {
			s.TE.PlayerSettlementFinish(id)
		}
		trials++
		p.SS.Pending = nil
		hd := s.PlayHand(&h.Script{Policy: h.CallStation, MaxWait: 12 * time.Second, OnEvent: func(e *h.Ev) { obs.event(p, e) }})
		if hd.Settled == nil {
			if !c.Failed() {
				c.InconclusiveW("foreign: hand did not settle in the double-fire stress", p.witness())
			}
			return
		}
		// let a possible second open surface
		time.Sleep(5 * time.Millisecond)
		s.Drain(func(e *h.Ev) { obs.event(p, e) })
		gc1 := s.TE.GetTable().State.GameCount
		if gc1 != gc0+1 && !c.Failed() {
			c.Violate("C07/two-hands-opened-for-one-set-up", fmt.Sprintf("a repeated set-up %v after the first gate fire took the game count from %d to %d", d, gc0, gc1), p.witness())
			return
		}
		// the stale second gate may still be pending: it fires into standby and legitimately opens the next hand,
		// or a fresh set-up from continueGame is pending; re-synchronise on whatever set-up is current
		p.SS.Pending = hd.Setup
		if hd.Paused != nil || hd.Setup == nil {
			break
		}
	}
	c.Count("double_fire_trials", int64(trials))
	c.Feature("double-fire")
	if trials > 0 {
		c.Nontrivial()
	}
	c.FP("doublefire", c.Seed)
	c.Sample(map[string]interface{}{"kind": "repeated set-up right after the first gate fire", "trials": trials, "cfg": p.Cfg})
}

// c07PauseMidHand: the table is paused while a hand runs and an open-game trigger completes: the running hand is
// unsettled, so no new hand may open (game count and game id stay).
func c07PauseMidHand(c *h.Ctx) {
	obs := newC07Obs()
	cfg := h.GenTable(c.R, h.GenOpts{MinSeats: 3, MinPlayers: 3, DeepOnly: true, Modes: []string{"ct", "cash", "mtt"}})
	ss, err := h.StartSession(cfg, c.R, nil)
	if err != nil {
		c.Inconclusive("start: " + err.Error())
		return
	}
	s := ss.S
	done := false
	turns := 0
	var gc0 int
	var gid0 string
	sc := &h.Script{Policy: h.CallStation, MaxWait: 12 * time.Second}
	sc.Stop = func() bool { return done }
	sc.BeforeAct = func(e *h.Ev, gp int, pid string) bool {
		turns++
		if turns < 2 {
			return true
		}
		gc0, gid0 = e.T.State.GameCount, e.T.State.GameState.GameID
		s.TE.PauseTable()
		obs.external = true
		parts := map[string]int{}
		for i, id := range inAndChips(e.T) {
			parts[id] = i
		}
		s.TE.SetUpTableGame(gc0+1, parts)
		for id := range parts {
			s.TE.PlayerSettlementFinish(id)
		}
		done = true
		return false
	}
	ss.NextHand(sc)
	// the gate fires and its callback returns; nothing may have opened
	s.WaitFor(4*time.Second, func(e *h.Ev) bool { return e.Kind == h.EvGateRet }, nil)
	time.Sleep(5 * time.Millisecond)
	t := s.Table()
	if !done {
		c.Inconclusive("the hand never reached its second turn")
		return
	}
	gidNow := ""
	if t.State.GameState != nil {
		gidNow = t.State.GameState.GameID
	}
	if t.State.GameCount != gc0 || gidNow != gid0 {
		c.Violate("C07/hand-opened-while-previous-unsettled/after-pause-mid-hand", fmt.Sprintf("the table was paused while hand %d (game %s) was running and the next hand was set up: game count is now %d, game id %s, although hand %d was never settled", gc0, gid0, t.State.GameCount, gidNow, gc0), map[string]interface{}{"cfg": cfg, "trace": s.TraceTail(40)})
		return
	}
	c.Feature("pause-mid-hand-then-set-up")
	c.Nontrivial()
	c.FP("pause-mid-hand", fmt.Sprintf("%+v", cfg))
	c.Sample(map[string]interface{}{"kind": "pause while a hand runs, then a completed open-game trigger", "cfg": cfg})
}

func init() {
	h.Register(&h.Check{
		ID:        "C07",
		Level:     "exploration",
		Technique: "runtime monitoring: online life-cycle trace checker over every table notification of generated multi-hand tables, field-reset assertions at quiescent points, plus negative scenarios (close / release / break / unset blinds / repeated set-up) decided on gate events",
		Rule: "case kinds by index: life-cycle runs with continue interval 0 (5..12 hands with churn) and 1 (2..3 hands); close or release after the next hand was set up and during the continue delay; break level set between hands and explicit set-up on a break; repeated set-up + signals 0..2 ms after the first gate fire (up to 12 trials per case); unset blinds (no hand may open: first attempt and first retry watched in quick, the whole 30 s retry loop in thorough), then the blind level arrives and the hand opened by the retry must be hand 1; " +
			"non-trivial = a life-cycle run with at least two hands, or a completed negative scenario; distinct = fingerprint of config + ops (+ variant)",
		Assumptions: []string{"'no hand opens' is decided when the gate callback has returned (logical event) or, for the continue-delay variants, 2.5 s after settlement (the handler runs after 1 s; a slower machine can only hide a violation, not create one)", "update serials are not judged"},
		Cases:       func(tier string) int { return map[string]int{"quick": 320, "thorough": 4000}[tier] },
		MinNontrivial: func(tier string) int {
			return map[string]int{"quick": 200, "thorough": 2500}[tier]
		},
		RequiredFeatures: func(tier string) []string {
			f := []string{"lifecycle:interval=0", "lifecycle:interval=1", "close-after-set-up", "release-after-set-up", "close-during-continue-delay", "release-during-continue-delay", "break-after-set-up", "double-fire", "paused-after-hand"}
			f = append(f, "blinds-unset", "opened-by-retry-after-blinds-arrived", "closed-during-open-retry", "released-during-open-retry", "second-trigger-opened-the-hand-during-the-retry-wait", "first-open-refused-by-seat-manager", "close-or-release-during-continue-delay-on-a-break", "pause-mid-hand-then-set-up")
			return f
		},
		CaseTimeout: 240e9,
		InProc:      2,
		Run: func(c *h.Ctx) {
			k := c.Case % 16
			switch {
			case k == 15 && c.Case%32 == 15:
				c07BlindsUnset(c)
			case k == 15:
				c07RefusedOpen(c)
			case k == 14:
				c07PauseMidHand(c)
			case k < 8:
				c07Normal(c, 0)
			case k < 10:
				c07Normal(c, 1)
			case k < 12:
				c07CloseRelease(c)
			case k == 12:
				c07Break(c)
			default:
				c07DoubleFire(c)
			}
		},
	})
}
