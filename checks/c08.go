package checks

import (
	"fmt"
	"strings"
	"sync/atomic"
	"time"

	pt "github.com/weedbox/pokertable"

	h "verif/harness"
)

// C08 — after each hand the table pauses or deals on; it never wedges.

type c08State struct {
	expectOpen   bool
	expectWhy    string
	gateRet      bool
	gateFired    bool
	gateParts    int
	openErr      string
	openedGC     int
	signalledAt  int
	decisions    int
	promptOpens  int
	timeoutOpens int
}

func c08Decision(p *Play, hd *h.Hand) {
	c := p.C
	st := hd.Settled.T
	alive, live := 0, 0
	for _, ps := range st.State.PlayerStates {
		if ps.Bankroll > 0 {
			alive++
			if ps.IsIn {
				live++
			}
		}
	}
	brk := st.State.BlindState.Level == -1
	wantPause := brk || alive < st.Meta.TableMinPlayerCount
	paused := hd.Paused != nil
	c.Count("continue_decisions", 1)
	w := func() interface{} {
		m := p.witness().(map[string]interface{})
		m["settled"] = hd.Settled.Brief()
		return m
	}
	if hd.AutoEnd || hd.Closed {
		return
	}
	if wantPause != paused {
		if wantPause {
			c.Violate("C08/no-pause-although-required", fmt.Sprintf("after hand %d: break=%v, %d players with chips (minimum %d), but the table did not pause", p.HandNo, brk, alive, st.Meta.TableMinPlayerCount), w())
		} else {
			c.Violate("C08/paused-although-it-should-deal-on", fmt.Sprintf("after hand %d: no break, %d players with chips (minimum %d), but the table paused", p.HandNo, alive, st.Meta.TableMinPlayerCount), w())
		}
		return
	}
	if paused {
		c.Feature("decision:pause")
		if brk {
			c.Feature("decision:pause-on-break")
		}
		return
	}
	c.Feature("decision:deal-on")
	if hd.Setup == nil {
		c.Violate("C08/neither-paused-nor-set-up", fmt.Sprintf("after hand %d the table neither paused nor set the next hand up", p.HandNo), w())
		return
	}
	if live >= 2 {
		// every seated-in player with chips is expected
		for _, ps := range st.State.PlayerStates {
			if ps.IsIn && ps.Bankroll > 0 {
				if _, ok := hd.Setup.Participants[ps.PlayerID]; !ok {
					c.Feature("set-up-without-a-live-player")
				}
			}
		}
	}
}

// c08LateSitIn: at the moment the gate fires only one seated-in player has chips (the other expected player left,
// a third has reserved but not sat down), so the first open fails; the third player sits down while the engine
// waits to retry: now two seated-in players have chips and the retry must open the hand.
func c08LateSitIn(c *h.Ctx) {
	r := c.R
	cfg := h.GenTable(r, h.GenOpts{MinSeats: 3, MaxSeats: 8, MinPlayers: 3, DeepOnly: true, Modes: []string{"ct", "cash"}, Rules: []string{"default", "default", "short_deck"}})
	cfg.Players = cfg.Players[:3]
	late := cfg.Players[2]
	two := cfg
	two.Players = cfg.Players[:2]
	ss, err := h.StartSession(two, r, nil)
	if err != nil {
		c.Inconclusive("start: " + err.Error())
		return
	}
	s := ss.S
	if err := s.Reserve(late.ID, late.Seat, late.Chips); err != nil { // reserved, not seated-in
		c.Inconclusive("reserve: " + err.Error())
		return
	}
	hd := ss.NextHand(&h.Script{Policy: h.Nit, MaxWait: 15 * time.Second})
	if hd.Settled == nil || hd.Setup == nil {
		c.InconclusiveW("foreign: first hand did not settle / no set-up", map[string]interface{}{"cfg": cfg, "trace": s.TraceTail(30)})
		return
	}
	gc0 := s.TE.GetTable().State.GameCount
	for _, ps := range hd.Settled.T.State.PlayerStates {
		if ps.IsParticipated && ps.Bankroll == 0 {
			// somebody busted in the first hand: the late player could not make a second live player; nothing to judge
			c.Feature("late-sit-in:skipped-after-bust")
			return
		}
	}
	leaver := two.Players[r.Intn(2)].ID
	s.Leave(leaver)
	ss.SignalPending(nil) // the leaver's signal is refused: the gate fires by its 2 s timeout
	if _, ok := s.WaitFor(5*time.Second, func(e *h.Ev) bool { return e.Kind == h.EvGateFire }, nil); !ok {
		c.Inconclusive("gate did not fire")
		return
	}
	time.Sleep(time.Duration(300+r.Intn(1200)) * time.Millisecond)
	s.TE.PlayerJoin(late.ID) // takes no engine lock: possible while the engine sleeps before its retry
	opened := false
	s.WaitFor(12*time.Second, func(e *h.Ev) bool {
		if e.Kind == h.EvTable && e.T != nil && e.T.State.Status == pt.TableStateStatus_TableGameOpened && e.T.State.GameCount == gc0+1 {
			opened = true
		}
		return opened || e.Kind == h.EvGateRet
	}, nil)
	time.Sleep(5 * time.Millisecond)
	if !opened && s.TE.GetTable().State.GameCount == gc0 {
		c.Violate("C08/next-hand-not-opened/after-late-sit-in", fmt.Sprintf("after hand %d one expected player left and %s sat down while the engine was waiting to retry the open: two seated-in players have chips, but the open-game callback returned without a hand (status %s)", gc0, late.ID, s.TE.GetTable().State.Status), map[string]interface{}{"cfg": cfg, "trace": s.TraceTail(40)})
		return
	}
	c.Feature("late-sit-in-during-open-retry")
	c.Nontrivial()
	c.FP("late-sit-in", fmt.Sprintf("%+v", cfg))
	c.Sample(map[string]interface{}{"kind": "player sits down while the engine waits to retry a failed open", "cfg": cfg})
}

func c08Run(c *h.Ctx) {
	if c.Case%5 == 4 {
		c08Interval1(c)
		return
	}
	if c.Case%20 == 11 {
		c08LateSitIn(c)
		return
	}
	st := &c08State{}
	r := c.R
	po := PlayOpts{
		Hands:    8 + r.Intn(10),
		Churn:    Churn{BetweenP: 0.6, MidP: 0.15, Rebuy: true, BuyIn: true, Leave: true, AddOn: true, MidTopup: true, MidJoin: true, MidLeaveOther: true, RandomSeat: true, ResumePaused: true, SitOut: true, Batch: true, TableLevelGuard: true},
		Gen:      h.GenOpts{MinSeats: 2, ShortStacks: true, VaryMinCount: true, MTTPastDuration: true},
		Policies: []string{"maniac", "maniac", "callstation", "random"},
		Decks:    []string{"rank", "seeded"},
		MaxWait:  42 * time.Second,
	}
	var lastSettle int
	mon := &PlayMon{}
	mon.OnEvent = func(p *Play, e *h.Ev) {
		switch e.Kind {
		case h.EvGateRet:
			st.gateRet = true
			st.gateParts = len(e.Gate.Participants)
		case h.EvGateFire:
			st.gateFired = true
			st.gateParts = len(e.Gate.Participants)
		case h.EvError:
			if strings.Contains(e.Err, "open game") {
				st.openErr = e.Err
			}
		case h.EvTable:
			if e.T != nil && e.T.State.Status == pt.TableStateStatus_TableGameOpened {
				st.openedGC = e.T.State.GameCount
				if st.signalledAt > 0 {
					if time.Duration(e.Mono-int64(st.signalledAt)) < 1500*time.Millisecond {
						st.promptOpens++
					} else {
						st.timeoutOpens++
					}
				}
			}
			if e.T != nil && e.T.State.Status == pt.TableStateStatus_TableGameSettled {
				lastSettle = e.Seq
			}
		}
	}
	mon.AfterHand = func(p *Play, hd *h.Hand) {
		c08Decision(p, hd)
		busts := 0
		for _, ps := range hd.Settled.T.State.PlayerStates {
			if ps.IsParticipated && ps.Bankroll == 0 {
				busts++
			}
		}
		waiting := 0
		for _, ps := range hd.Settled.T.State.PlayerStates {
			if !ps.IsParticipated && ps.IsIn && ps.Bankroll > 0 {
				waiting++
			}
		}
		if busts > 0 {
			c.Feature("continue-after-bust")
		}
		if waiting > 0 {
			c.Feature("continue-with-waiting-or-new-player")
		}
		if busts > 0 || waiting > 0 {
			c.Nontrivial()
		}
	}
	mon.BeforeAct = func(p *Play, e *h.Ev, gp int, pid string) bool {
		// a busted bystander tops up while the hand runs: the next continue must make him eligible again
		if r.Intn(4) == 0 {
			for _, ps := range e.T.State.PlayerStates {
				if ps.Bankroll == 0 && !ps.IsParticipated && ps.IsIn {
					c.Feature("busted-bystander-topped-up-mid-hand")
					p.AddOn("mid", ps.PlayerID, p.chipsAmount())
					break
				}
			}
		}
		return true
	}
	mon.BeforeSignal = func(p *Play) {
		// called right before the pending set-up is signalled (after the between-hands operations)
		st.expectOpen, st.gateRet, st.gateFired, st.openErr = false, false, false, ""
		ss := p.SS
		if ss.Pending == nil {
			return
		}
		t := p.tableNow()
		live := inAndChips(t)
		if len(live) >= 2 {
			st.expectOpen = true
			st.expectWhy = fmt.Sprintf("seated-in players with chips: %v", live)
		}
		ids := h.SetupIDs(ss.Pending)
		// every order and subset of signals
		r.Shuffle(len(ids), func(i, j int) { ids[i], ids[j] = ids[j], ids[i] })
		switch r.Intn(6) {
		case 0:
			if len(ids) > 1 {
				ids = ids[:len(ids)-1] // one player never signals: the 2 s timeout opens the hand
				c.Feature("signals:one-withheld")
			}
		case 1:
			ids = append(ids, ids...) // repeated signals
			c.Feature("signals:repeated")
		default:
			c.Feature("signals:all-shuffled")
		}
		if len(ss.Pending.Participants) >= 2 {
			st.signalledAt = int(h.Mono())
			ss.SignalPending(ids)
		}
	}
	if c.Case%2 == 0 {
		// a subscriber that reacts to the settlement from inside the callback with a call that takes the engine lock
		// (it re-sends the current blind level, as a competition layer does on every tick)
		var syncGC int64 = -1
		c.Feature("lock-taking-call-inside-the-settlement-callback")
		po.OnSync = func(p *Play, t *pt.Table) {
			if t.State.Status != pt.TableStateStatus_TableGameSettled || p.SS == nil || p.SS.S == nil || p.SS.S.TE == nil {
				return
			}
			if atomic.SwapInt64(&syncGC, int64(t.State.GameCount)) == int64(t.State.GameCount) {
				return
			}
			b := t.State.BlindState
			p.SS.S.TE.UpdateBlind(b.Level, b.Ante, b.Dealer, b.SB, b.BB)
		}
	}
	p := RunPlay(c, po, mon)
	if p == nil {
		return
	}
	_ = lastSettle
	c.FP(fmt.Sprintf("%+v", p.Cfg), fmt.Sprintf("%+v", p.Ops), len(p.SS.Hands))
	if p.Cfg.MaxDuration < 0 {
		c.Feature("mtt-table-past-its-duration")
	}
	if hd := p.CurHand; hd != nil && hd.AutoEnd && p.Cfg.Mode == "mtt" && !c.Failed() {
		// the maximum duration ends automatic opening on ct / cash tables only; an mtt table goes on as ever
		c.Violate("C08/next-hand-not-opened/auto-open-ended-on-mtt-table", fmt.Sprintf("after hand %d the mtt table announced the end of automatic opening (maximum duration %d s) instead of pausing or dealing on", p.HandNo, p.Cfg.MaxDuration), p.witness())
		return
	}
	c.Count("prompt_opens", int64(st.promptOpens))
	c.Count("opens_after_more_than_1.5s", int64(st.timeoutOpens))
	if p.Stalled && !c.Failed() {
		hd := p.CurHand
		if hd != nil && hd.Opened == nil {
			// the next hand never opened
			if st.expectOpen && (st.gateRet || st.openErr != "") {
				why := "the open-game callback returned without opening a hand"
				if st.openErr != "" {
					why = "opening failed: " + st.openErr
				}
				c.Violate("C08/next-hand-not-opened", fmt.Sprintf("after hand %d (%s; all expected signals sent): %s; table status %s", p.HandNo-1, st.expectWhy, why, p.tableNow().State.Status), p.witness())
				return
			}
			if st.expectOpen && !st.gateFired && len(p.SS.S.TE.GetTable().State.PlayerStates) > 0 {
				// the expected players have signalled, or the 2 s open-game timeout has elapsed twenty times over, and
				// the gate has not even fired
				c.Violate("C08/next-hand-not-opened/open-game-gate-never-fired", fmt.Sprintf("after hand %d (%s): the next hand was set up and the signals were sent (possibly one withheld), but the open-game gate has not fired within 42 s (its timeout is 2 s); table status %s", p.HandNo-1, st.expectWhy, p.tableNow().State.Status), p.witness())
				return
			}
			if st.expectOpen {
				c.InconclusiveW("watchdog: the gate fired but the next hand neither opened nor was refused within 42 s", p.witness())
				return
			}
			c.Feature("no-open-expected")
			c.Sample(map[string]interface{}{"cfg": p.Cfg, "hands": len(p.SS.Hands), "ops": trimOps(p.Ops, 10), "ended": "fewer than two seated-in players with chips"})
			return
		}
		if hd != nil && hd.Settled != nil {
			// settled, and then neither a pause nor a set-up (nor anything else) within 42 s: the table is wedged
			held := ""
			if p.SS.S.LockHeldFor(10, 50*time.Millisecond) {
				held = "; the engine lock is held although no call is in progress"
			}
			c.Violate("C08/no-continue-decision-after-settlement", fmt.Sprintf("hand %d was settled and 42 s later the table has neither paused nor set the next hand up (continue interval %d s); status %s%s", p.HandNo, p.Cfg.Interval, p.tableNow().State.Status, held), p.witness())
			return
		}
		c.InconclusiveW(fmt.Sprintf("foreign: hand %d opened but did not settle (C11's subject)", p.HandNo), p.witness())
		return
	}
	c.Sample(map[string]interface{}{"cfg": p.Cfg, "hands": len(p.SS.Hands), "ops": trimOps(p.Ops, 10), "prompt_opens": st.promptOpens})
}

// c08Interval1: operations inside a 1 s continue interval decide between pause and deal-on.
func c08Interval1(c *h.Ctx) {
	r := c.R
	cfg := h.GenTable(r, h.GenOpts{MinSeats: 3, MaxSeats: 8, MinPlayers: 3, Interval: 1, Modes: []string{"ct", "cash", "mtt"}, Rules: []string{"default"}})
	// one short stack that will bust against deep ones
	for i := range cfg.Players {
		cfg.Players[i].Chips = 2000
	}
	victim := 0
	cfg.Players[victim].Chips = cfg.BB
	rig := false
	ss, err := h.StartSession(cfg, r, nil)
	if err != nil {
		c.Inconclusive("start: " + err.Error())
		return
	}
	_ = rig
	variant := r.Intn(5)
	hd := ss.NextHand(&h.Script{Policy: h.Maniac, StopAfterSettle: true, MaxWait: 15 * time.Second})
	if hd.Settled == nil {
		c.InconclusiveW("foreign: hand did not settle", map[string]interface{}{"cfg": cfg, "trace": ss.S.TraceTail(30)})
		return
	}
	s := ss.S
	desc := ""
	switch variant {
	case 0: // everybody but one leaves during the interval -> must pause
		t := s.Table()
		var ids []string
		for i, ps := range t.State.PlayerStates {
			if i > 0 {
				ids = append(ids, ps.PlayerID)
			}
		}
		s.Leave(ids...)
		desc = "all but one player left during the continue interval"
	case 1: // break set during the interval -> must pause
		setBreak(s.TE, c.R)
		desc = "blind level became a break during the continue interval"
	case 2: // busted players re-buy during the interval -> deals on with them
		t := s.Table()
		for _, ps := range t.State.PlayerStates {
			if ps.Bankroll == 0 {
				s.Reserve(ps.PlayerID, -1, 500)
				desc = "busted player re-bought during the continue interval"
			}
		}
	case 3: // newcomer arrives during the interval
		if fs := ss.FreeSeats(); len(fs) > 0 {
			s.Seat("late", fs[0], 700)
			desc = "newcomer arrived during the continue interval"
		}
	}
	if desc == "" {
		desc = "nothing happened during the continue interval"
	}
	t := s.Table()
	alive, live := 0, 0
	for _, ps := range t.State.PlayerStates {
		if ps.Bankroll > 0 {
			alive++
			if ps.IsIn {
				live++
			}
		}
	}
	wantPause := t.State.BlindState.Level == -1 || alive < t.Meta.TableMinPlayerCount
	// the handler cannot run before 1 s (timer lower bound); wait for its decision
	var got string
	var su *h.SetupEv
	s.WaitFor(5*time.Second, func(e *h.Ev) bool {
		if e.Kind == h.EvSetup {
			got, su = "set-up", e.Setup
		}
		if e.Kind == h.EvTable && e.T != nil && e.T.State.Status == pt.TableStateStatus_TablePausing {
			got = "pause"
		}
		return got != ""
	}, nil)
	w := map[string]interface{}{"cfg": cfg, "variant": desc, "trace": s.TraceTail(40)}
	if got == "" {
		c.Violate("C08/neither-paused-nor-set-up", desc+": 5 s after settlement (interval 1 s) the table has neither paused nor set the next hand up", w)
		return
	}
	if wantPause != (got == "pause") {
		c.Violate("C08/wrong-continue-decision/interval-1", fmt.Sprintf("%s: %d players with chips (min %d), level %d -> expected pause=%v, engine chose %s", desc, alive, t.Meta.TableMinPlayerCount, t.State.BlindState.Level, wantPause, got), w)
		return
	}
	c.Feature("interval1:" + got)
	c.Feature("interval1-variant:" + desc)
	if got == "set-up" && live >= 2 {
		ss.Pending = su
		ss.SignalPending(nil)
		opened := false
		_, _ = s.WaitFor(42*time.Second, func(e *h.Ev) bool {
			if e.Kind == h.EvTable && e.T != nil && e.T.State.Status == pt.TableStateStatus_TableGameOpened && e.T.State.GameCount == 2 {
				opened = true
			}
			return opened || e.Kind == h.EvGateRet
		}, nil)
		if !opened {
			time.Sleep(10 * time.Millisecond)
			if s.TE.GetTable().State.GameCount < 2 {
				c.Violate("C08/next-hand-not-opened", desc+fmt.Sprintf(": %d seated-in players with chips, all signalled, but the open-game callback returned without a hand", live), w)
				return
			}
		}
		c.Feature("interval1:opened")
	}
	c.Nontrivial()
	c.FP("interval1", variant, fmt.Sprintf("%+v", cfg))
	c.Sample(map[string]interface{}{"kind": "interval 1", "variant": desc, "decision": got, "cfg": cfg})
}

func init() {
	h.Register(&h.Check{
		ID:        "C08",
		Level:     "exploration",
		Technique: "runtime monitoring: continue-decision oracle on every settlement and bounded-progress oracle on logical gate events (set-up, signals, gate fired, gate callback returned, opened, open error) over generated churny multi-hand tables",
		Rule: "case = one generated table with short stacks and rigged decks (many busts), arrivals / re-buys / sit-outs / departures between and during hands, playing 8..17 hands with PRNG-chosen order and subset of settlement-finished signals; every fifth case uses a 1 s continue interval with an operation inside it (leave, break, re-buy, arrival); " +
			"non-trivial = a continue decision after a bust or with a waiting / newly arrived player, or an interval-1 scenario; distinct = fingerprint of config+ops",
		Assumptions: []string{
			"'opens' is decided on logical events: a gate callback that returned, or an open error, without a hand is a refusal; a gate that has not fired 42 s after the set-up (timeout 2 s) is a hand that never opens; a gate that fired without a result within 42 s is inconclusive (the engine's own retry loop lasts 30 s)",
			"the premise 'two seated-in players with chips' is evaluated when the signals are sent; departures between hands keep two such players",
			"'as soon as' is not judged by wall-clock (C09 judges the gate); prompt / late opens are only counted",
		},
		Cases:         func(tier string) int { return map[string]int{"quick": 240, "thorough": 4000}[tier] },
		MinNontrivial: func(tier string) int { return map[string]int{"quick": 120, "thorough": 2000}[tier] },
		RequiredFeatures: func(string) []string {
			return []string{"decision:pause", "decision:deal-on", "continue-after-bust", "continue-with-waiting-or-new-player", "signals:one-withheld", "signals:repeated", "busted-bystander-topped-up-mid-hand", "interval1:pause", "interval1:set-up", "interval1:opened", "late-sit-in-during-open-retry", "mtt-table-past-its-duration"}
		},
		CaseTimeout: 400e9,
		InProc:      2,
		Run:         c08Run,
	})
}
