package checks

import (
	"bytes"
	"fmt"
	"sort"
	"strings"
	"time"

	pt "github.com/weedbox/pokertable"

	h "verif/harness"
)

// C10 — only the player whose turn it is can act; refused actions leave no trace.

type c10Mon struct {
	c        *h.Ctx
	pending  *h.ActRec // accepted action waiting for its publication in the next snapshot
	pendSeat int
	pendGC   int
	pendGID  string
	pendRnd  string
	callGID  string
	lastGID  string
	lastRnd  string
	callRnd  string
	probes   int
	snapSeen bool
	retSeen  bool
	snapLA   *pt.TablePlayerGameAction
	accepted int
	actEvs   int
}

func has(a []string, x string) bool {
	for _, y := range a {
		if y == x {
			return true
		}
	}
	return false
}

// probe issues one action that must be refused and checks that nothing changed.
func (m *c10Mon) probe(p *Play, who, class, act string, chips int64, phase string, before []byte, evBefore, beBefore int) bool {
	c := m.c
	s := p.SS.S
	err := h.DoAction(s.TE, who, act, chips)
	m.probes++
	c.Count("refusal_probes", 1)
	c.Feature(fmt.Sprintf("probe:%s:%s:%s", phase, class, act))
	w := func() interface{} {
		mm := p.witness().(map[string]interface{})
		mm["probe"] = fmt.Sprintf("%s (%s) %s %d during %s", who, class, act, chips, phase)
		return mm
	}
	if err == nil {
		c.Violate(fmt.Sprintf("C10/refusable-action-accepted/%s/%s", class, act), fmt.Sprintf("%s: %s (%s) submitted %s and the engine returned nil", phase, who, class, act), w())
		return false
	}
	after := s.TableJSON()
	if !bytes.Equal(before, after) {
		c.Violate(fmt.Sprintf("C10/refused-action-changed-table/%s/%s", class, act), fmt.Sprintf("%s: %s (%s) %s was refused (%v) but the table changed", phase, who, class, act, err), map[string]interface{}{"w": w(), "before": string(before), "after": string(after)})
		return false
	}
	_ = beBefore // the hand engine may be consulted for the refusal (it validates the action kind); only effects are judged
	return true
}

func (m *c10Mon) batch(p *Play, e *h.Ev, phase string, allowed map[string][]string) bool {
	s := p.SS.S
	t := e.T
	// the first hand state can be published while the open is still in progress (status opened, engine lock held):
	// the quiescent point starts when the open has finished
	for i := 0; i < 20000 && s.TE.GetTable().State.Status == pt.TableStateStatus_TableGameOpened; i++ {
		time.Sleep(50 * time.Microsecond)
	}
	s.Drain(nil)
	before := s.TableJSON()
	be := p.SS.Rig.Count()
	evs := len(s.Tr)
	r := p.R()
	type target struct{ id, class string }
	var targets []target
	for gp := range t.State.GamePlayerIndexes {
		targets = append(targets, target{h.PidOf(t, gp), "participant"})
	}
	for _, ps := range t.State.PlayerStates {
		if h.GameIdx(t, ps.PlayerID) < 0 {
			targets = append(targets, target{ps.PlayerID, "not-dealt-in"})
			break
		}
	}
	targets = append(targets, target{"stranger", "stranger"})
	// strangers whose id looks like the id of a player the hand is waiting on (other letter case, padded, prefix,
	// extension): everything is refused, also the kinds the real player may submit (round 7)
	var askedIDs []string
	for id, al := range allowed {
		if len(al) > 0 {
			askedIDs = append(askedIDs, id)
		}
	}
	sort.Strings(askedIDs)
	if len(askedIDs) > 0 {
		id := askedIDs[r.Intn(len(askedIDs))]
		alike := []string{strings.ToUpper(id), id + " ", " " + id, id + "0", id[:len(id)-1], ""}
		for _, a := range alike {
			if a != id && h.PlayerIdx(t, a) < 0 {
				targets = append(targets, target{a, "look-alike-stranger"})
			}
		}
	}
	for _, tg := range targets {
		for _, a := range h.AllActions {
			if has(allowed[tg.id], a) {
				continue
			}
			// sample: always probe the cheap cases fully for small tables, a random half otherwise
			if len(targets) > 5 && r.Intn(2) == 0 && !(tg.class == "look-alike-stranger" && a != "ready" && a != "pass" && a != "pay") {
				continue
			}
			if tg.class == "look-alike-stranger" && r.Intn(3) != 0 && (a == "ready" || a == "pass") {
				continue
			}
			cls := tg.class
			if cls == "participant" && len(allowed[tg.id]) > 0 {
				cls = "asked-player-other-kind"
			}
			chips := int64(0)
			switch a {
			case "bet", "raise", "pay":
				chips = 10 + r.Int63n(50)
			}
			if !m.probe(p, tg.id, cls, a, chips, phase, before, evs, be) {
				return false
			}
		}
	}
	// no event may have been produced by the refusals
	bad := ""
	s.Drain(func(ev *h.Ev) {
		if ev.Kind == h.EvAction && ev.Act.Action == "pay" {
			return // antes / blinds received are published by the collection's own goroutine and may trail into this window
		}
		if ev.Kind == h.EvAction || ev.Kind == h.EvTable || ev.Kind == h.EvState {
			bad = ev.Brief()
		}
	})
	if bad != "" {
		m.c.Violate("C10/refusals-produced-an-event", fmt.Sprintf("%s: a batch of refused actions produced the notification %s", phase, bad), p.witness())
		return false
	}
	return true
}

func c10Run(c *h.Ctx) {
	m := &c10Mon{c: c}
	po := PlayOpts{
		Hands:    2 + c.R.Intn(3),
		Churn:    Churn{BetweenP: 0.3, MidP: 0.15, Rebuy: true, BuyIn: true, SitOut: true, ResumePaused: true, MidLeaveOther: true, MidJoin: true},
		NoJitter: false,
		Gen:      h.GenOpts{MinSeats: 3, MaxSeats: 8, MinPlayers: 2},
		Policies: []string{"random", "callstation", "aggro"},
	}
	mon := &PlayMon{}
	mon.OnRequest = func(p *Play, e *h.Ev, kind string, asked []string) []string {
		if c.Failed() {
			return nil
		}
		allowed := map[string][]string{}
		for _, id := range asked {
			if kind == "ready" {
				allowed[id] = []string{"ready"}
			} else {
				allowed[id] = []string{"pay"}
			}
		}
		m.batch(p, e, kind+"-requested", allowed)
		return nil
	}
	endKind := []string{"", "", "pause", "close"}[c.Case%4]
	turnsSeen := 0
	mon.BeforeAct = func(p *Play, e *h.Ev, gp int, pid string) bool {
		if c.Failed() {
			return false
		}
		gs := e.T.State.GameState
		allowed := map[string][]string{pid: gs.Players[gp].AllowedActions}
		if !m.batch(p, e, "turn:"+gs.Status.Round, allowed) {
			return false
		}
		turnsSeen++
		if endKind != "" && p.HandNo >= 2 && turnsSeen >= 3 {
			// the table is paused / closed while the hand runs: no hand is being played any more, so even the
			// player the hand was waiting on is refused, and nothing may change
			s := p.SS.S
			if endKind == "pause" {
				s.TE.PauseTable()
			} else {
				s.TE.CloseTable()
			}
			time.Sleep(200 * time.Microsecond)
			s.Drain(nil)
			before := s.TableJSON()
			be := p.SS.Rig.Count()
			for _, a := range gs.Players[gp].AllowedActions {
				chips := int64(0)
				switch a {
				case "bet":
					chips = gs.Status.MiniBet
				case "raise":
					chips = gs.Status.CurrentWager + gs.Status.PreviousRaiseSize
				}
				if !m.probe(p, pid, "player-to-act-after-"+endKind, a, chips, "table-"+endKind+"d-mid-hand", before, 0, be) {
					return false
				}
			}
			c.Feature("probe:table-" + endKind + "d-mid-hand")
			p.StopNow = true
			return false
		}
		return true
	}
	// double submission: the player whose move has just been accepted submits another wager action at once, before
	// the resulting state has been published. The turn has passed on (or the round / hand has closed), so it must be
	// refused whatever the updater goroutine has got round to.
	mon.AfterAct = func(p *Play, e *h.Ev, gp int, pid, act string, err error) {
		if c.Failed() || err != nil || !wagerActs[act] || p.R().Intn(3) != 0 {
			return
		}
		second := []string{"fold", "check", "call", "allin", "bet", "raise", "pass"}[p.R().Intn(7)]
		chips := int64(0)
		if second == "bet" || second == "raise" {
			chips = 10 + p.R().Int63n(60)
		}
		m.probes++
		c.Count("refusal_probes", 1)
		c.Feature("probe:double-submission:" + second)
		if err2 := h.DoAction(p.SS.S.TE, pid, second, chips); err2 == nil {
			mm := p.witness().(map[string]interface{})
			mm["probe"] = fmt.Sprintf("%s: accepted %s, then at once %s %d", pid, act, second, chips)
			c.Violate("C10/refusable-action-accepted/same-player-again/"+second, fmt.Sprintf("hand %d %s: %s's %s was accepted and the %s he submitted immediately afterwards (no turn of his in between) was accepted too", p.HandNo, e.T.State.GameState.Status.Round, pid, act, second), mm)
		}
	}
	mon.OnEvent = func(p *Play, e *h.Ev) {
		if c.Failed() {
			return
		}
		checkLA := func() {
			la := m.snapLA
			if la == nil || la.PlayerID != m.pending.PID || la.Action != m.pending.Act || la.Seat != m.pendSeat || la.GameCount != m.pendGC {
				c.Violate("C10/last-player-action-not-published", fmt.Sprintf("after the accepted %s by %s (seat %d, hand %d) the next snapshot publishes last action %+v", m.pending.Act, m.pending.PID, m.pendSeat, m.pendGC, la), p.witness())
			} else if m.pendGID != "" && (la.GameID != m.pendGID || la.Round != m.pendRnd) {
				c.Violate("C10/last-player-action-differs-from-event", fmt.Sprintf("event says game %s round %s, last action says game %s round %s", m.pendGID, m.pendRnd, la.GameID, la.Round), p.witness())
			}
			m.pending, m.pendGID = nil, ""
		}
		switch e.Kind {
		case h.EvCall:
			if len(e.Name) > 4 && e.Name[:4] == "act:" && wagerActs[e.Name[4:]] {
				var pid string
				fmt.Sscanf(e.Args, "%s", &pid)
				t := p.SS.S.TE.GetTable()
				m.pending = &h.ActRec{PID: pid, Act: e.Name[4:]}
				m.pendSeat, m.pendGC = seatOf(t, pid), t.State.GameCount
				// the hand state the action is submitted to is the one of the last snapshot before the call (trace order;
				// the monitor itself runs later, the live table may have moved on)
				m.callGID, m.callRnd = m.lastGID, m.lastRnd
				m.snapSeen, m.retSeen, m.snapLA, m.pendGID = false, false, nil, ""
			}
		case h.EvRet:
			if m.pending != nil && len(e.Name) > 4 && e.Name[:4] == "act:" && e.Name[4:] == m.pending.Act {
				if e.Err != "" {
					m.pending = nil
					return
				}
				m.retSeen = true
				m.accepted++
				if m.snapSeen {
					checkLA()
				}
			}
		case h.EvAction:
			if wagerActs[e.Act.Action] && e.Act.Round != "ante" {
				m.actEvs++
				if m.pending == nil {
					return
				}
				a := e.Act
				if a.PlayerID != m.pending.PID || a.Action != m.pending.Act || a.Seat != m.pendSeat || a.GameCount != m.pendGC || a.GameID == "" {
					c.Violate("C10/action-event-does-not-name-the-action", fmt.Sprintf("accepted %s by %s (seat %d, hand %d) was published as %s by %s seat %d hand %d game id %q", m.pending.Act, m.pending.PID, m.pendSeat, m.pendGC, a.Action, a.PlayerID, a.Seat, a.GameCount, a.GameID), p.witness())
				}
				m.pendGID, m.pendRnd = a.GameID, a.Round
				if m.callGID != "" && !c.Failed() && (a.GameID != m.callGID || a.Round != m.callRnd) {
					c.Violate("C10/action-event-names-another-round-or-hand", fmt.Sprintf("%s by %s was submitted in round %s of hand %s and published as round %s of hand %s", a.Action, a.PlayerID, m.callRnd, m.callGID, a.Round, a.GameID), p.witness())
				}
			}
		case h.EvTable:
			if e.T != nil && e.T.State.GameState != nil {
				m.lastGID, m.lastRnd = e.T.State.GameState.GameID, e.T.State.GameState.Status.Round
			} else if e.T != nil {
				m.lastGID, m.lastRnd = "", ""
			}
			if m.pending != nil && !m.snapSeen && e.T != nil && e.T.State.GameState != nil {
				m.snapSeen = true
				if la := e.T.State.LastPlayerGameAction; la != nil {
					cp := *la
					m.snapLA = &cp
				}
				if m.retSeen {
					checkLA()
				}
			}
		}
	}
	mon.AfterHand = func(p *Play, hd *h.Hand) {
		if c.Failed() {
			return
		}
		// accepted wager calls == backend wager calls == action events for this hand
		gid := ""
		if hd.FirstPlay != nil && hd.FirstPlay.T.State.GameState != nil {
			gid = hd.FirstPlay.T.State.GameState.GameID
		}
		applied := 0
		for _, bc := range p.SS.Rig.Snapshot() {
			if _, ok := wagerKinds[bc.Kind]; ok && bc.Err == "" && bc.Out != nil && bc.Out.GameID == gid {
				applied++
			}
		}
		acc := 0
		for _, a := range hd.Acts {
			if a.Err == "" && wagerActs[a.Act] {
				acc++
			}
		}
		evs := 0
		for _, ev := range hd.ActEvs {
			if wagerActs[ev.Act.Action] && ev.Act.Round != "ante" {
				evs++
			}
		}
		if acc != applied || evs != acc {
			c.Violate("C10/accepted-applied-published-counts-differ", fmt.Sprintf("hand %d: %d wager actions accepted, %d applied by the hand engine, %d action events", p.HandNo, acc, applied, evs), p.witness())
			return
		}
		// between hands nothing is accepted
		s := p.SS.S
		s.Drain(nil)
		t := s.Table()
		before := s.TableJSON()
		be := p.SS.Rig.Count()
		for _, ps := range t.State.PlayerStates {
			for _, a := range h.AllActions {
				if !m.probe(p, ps.PlayerID, "between-hands", a, 20, "no-hand-running", before, 0, be) {
					return
				}
			}
			break
		}
		c.Count("hands", 1)
	}
	p := RunPlay(c, po, mon)
	if p == nil {
		return
	}
	c.FP(fmt.Sprintf("%+v", p.Cfg), c.Seed)
	if p.Stalled && !c.Failed() && !p.StopNow {
		c.InconclusiveW(fmt.Sprintf("foreign: hand %d did not settle within the watchdog", p.HandNo), p.witness())
		return
	}
	if m.probes > 0 {
		c.Nontrivial()
	}
	c.Sample(map[string]interface{}{"cfg": p.Cfg, "hands": len(p.SS.Hands), "refusal_probes": m.probes, "accepted_wager_actions": m.accepted})
	_ = pt.UnsetValue
}

func init() {
	h.Register(&h.Check{
		ID:        "C10",
		Level:     "exploration",
		Technique: "runtime monitoring with hostile probes: at every request point and every turn of generated hands each participant, a seated player who is not dealt in and a stranger submit every action kind that is not allowed; table JSON, backend call count and notifications are compared before/after; accepted actions are matched with backend calls, action events and the published last action",
		Rule: "case = one generated table playing 2..4 hands; at each ready / ante / blinds request and each turn a probe batch (all participants, one seated non-participant, a stranger x nine action kinds, minus what the hand allows; half-sampled on big tables), then the legal move; after each hand all kinds are probed with no hand running; " +
			"non-trivial = at least one refusal probe was made; distinct = config + seed; the evidence lists the distinct (phase, caller class, action) triples probed",
		Assumptions: []string{"a repeated 'ready' / 'pay' by an asked player is allowed by the hand until the request completes and is not a refusal case", "amounts are not part of the statement: only action kinds are probed", "'ready' has no action event of its own in this code base; events are required for wager actions and pass"},
		Cases:       func(tier string) int { return map[string]int{"quick": 1200, "thorough": 20000}[tier] },
		MinNontrivial: func(tier string) int {
			return map[string]int{"quick": 1000, "thorough": 18000}[tier]
		},
		RequiredFeatures: func(string) []string {
			return []string{"probe:turn:preflop:participant:fold", "probe:turn:flop:asked-player-other-kind:pass", "probe:blinds-requested:participant:pay", "probe:ready-requested:stranger:ready", "probe:no-hand-running:between-hands:call", "probe:turn:preflop:not-dealt-in:check", "probe:turn:preflop:asked-player-other-kind:ready", "probe:table-paused-mid-hand", "probe:table-closed-mid-hand", "probe:double-submission:fold", "probe:double-submission:call"}
		},
		CaseTimeout: 200e9,
		Run:         c10Run,
	})
}
