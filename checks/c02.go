package checks

import (
	"fmt"
	"time"

	pt "github.com/weedbox/pokertable"

	h "verif/harness"
)

// C02 — entry i of a hand's player list denotes one fixed table player from open to settlement.

var wagerKinds = map[string]string{"Fold": "fold", "Check": "check", "Call": "call", "Allin": "allin", "Bet": "bet", "Raise": "raise", "Pass": "pass"}
var wagerActs = map[string]bool{"fold": true, "check": true, "call": true, "allin": true, "bet": true, "raise": true, "pass": true}

func seatOf(t *pt.Table, id string) int {
	if i := h.PlayerIdx(t, id); i >= 0 {
		return t.State.PlayerStates[i].Seat
	}
	return -1
}

func bankOf(t *pt.Table, id string) (int64, bool) {
	if i := h.PlayerIdx(t, id); i >= 0 {
		return t.State.PlayerStates[i].Bankroll, true
	}
	return 0, false
}

func c02AfterHand(p *Play, hd *h.Hand) {
	c := p.C
	if hd.Opened == nil || hd.Opened.T == nil || hd.Settled == nil {
		c.Inconclusive("hand without opened/settled snapshot")
		return
	}
	c.Count("hands", 1)
	open := hd.Opened.T
	roster := hd.Roster()
	w := func() interface{} {
		m := p.witness().(map[string]interface{})
		m["roster"] = roster
		m["opened"] = hd.Opened.Brief()
		return m
	}
	if !c02CheckRoster(p, open, roster, w) {
		return
	}
	// (b) same index -> same player in every later snapshot of the hand
	gid := ""
	if hd.FirstPlay != nil && hd.FirstPlay.T.State.GameState != nil {
		gid = hd.FirstPlay.T.State.GameState.GameID
	}
	for _, e := range hd.Snaps {
		t := e.T
		if t.State.GameState == nil || t.State.GameState.GameID != gid {
			continue
		}
		if t.State.Status == pt.TableStateStatus_TableGameStandby {
			continue
		}
		if len(t.State.GamePlayerIndexes) != len(roster) {
			c.Violate("C02/roster/length-changed-during-hand", fmt.Sprintf("hand %d: list had %d entries at open, %d in snapshot #%d", p.HandNo, len(roster), len(t.State.GamePlayerIndexes), e.Seq), w())
			return
		}
		for i := range roster {
			if got := h.PidOf(t, i); got != roster[i] {
				c.Violate("C02/roster/entry-denotes-other-player", fmt.Sprintf("hand %d: entry %d was %s at open but denotes %q in snapshot #%d (%s)", p.HandNo, i, roster[i], got, e.Seq, t.State.Status), w())
				return
			}
		}
	}
	// (c) start stacks
	if cc := p.CreateCall(hd); cc != nil && cc.Opts != nil {
		if len(cc.Opts.Players) != len(roster) {
			c.Violate("C02/start-stack/count", fmt.Sprintf("hand %d: %d stacks for %d entries", p.HandNo, len(cc.Opts.Players), len(roster)), w())
			return
		}
		for i, ps := range cc.Opts.Players {
			if b, ok := bankOf(open, roster[i]); ok && b != ps.Bankroll {
				c.Violate("C02/start-stack/not-the-entrys-bankroll", fmt.Sprintf("hand %d: entry %d (%s) starts with %d, bankroll at open %d", p.HandNo, i, roster[i], ps.Bankroll, b), w())
				return
			}
		}
	} else {
		c.Inconclusive("no CreateGame record for the hand")
		return
	}
	// (d) accepted wager actions <-> backend calls <-> action events
	idx := map[string]int{}
	for i, id := range roster {
		idx[id] = i
	}
	var accepted []h.ActRec
	for _, a := range hd.Acts {
		if a.Err == "" && wagerActs[a.Act] {
			accepted = append(accepted, a)
		}
	}
	var bcalls []*h.BCall
	for _, bc := range p.SS.Rig.Snapshot() {
		if _, ok := wagerKinds[bc.Kind]; ok && bc.Err == "" && bc.Out != nil && bc.Out.GameID == gid {
			bcalls = append(bcalls, bc)
		}
	}
	if len(accepted) != len(bcalls) {
		c.Violate("C02/actions/accepted-vs-applied-count", fmt.Sprintf("hand %d: %d accepted wager actions but %d applied by the hand engine", p.HandNo, len(accepted), len(bcalls)), w())
		return
	}
	for k, a := range accepted {
		bc := bcalls[k]
		if wagerKinds[bc.Kind] != a.Act {
			c.Violate("C02/actions/kind-mismatch", fmt.Sprintf("hand %d: accepted action %d is %s by %s but the hand engine applied %s", p.HandNo, k, a.Act, a.PID, bc.Kind), w())
			return
		}
		if want, ok := idx[a.PID]; !ok || bc.InCP != want {
			c.Violate("C02/actions/applied-to-other-entry", fmt.Sprintf("hand %d: %s by %s (entry %d) was applied while entry %d was to act", p.HandNo, a.Act, a.PID, want, bc.InCP), w())
			return
		}
	}
	var evs []*h.Ev
	for _, e := range hd.ActEvs {
		if wagerActs[e.Act.Action] && e.Act.Round != "ante" {
			evs = append(evs, e)
		}
	}
	if len(evs) != len(accepted) {
		c.Violate("C02/actions/event-count", fmt.Sprintf("hand %d: %d accepted wager actions, %d action events", p.HandNo, len(accepted), len(evs)), w())
		return
	}
	for k, a := range accepted {
		e := evs[k].Act
		if e.PlayerID != a.PID || e.Action != a.Act || e.Seat != seatOf(open, a.PID) {
			c.Violate("C02/actions/event-names-other-player", fmt.Sprintf("hand %d: action %d by %s (seat %d) %s was published as %s seat %d %s", p.HandNo, k, a.PID, seatOf(open, a.PID), a.Act, e.PlayerID, e.Seat, e.Action), w())
			return
		}
		c.Count("actions", 1)
	}
	// (e) results credited to the entry's player and nobody else
	res, _ := p.HandResult(hd)
	if res == nil {
		c.Inconclusive("no result")
		return
	}
	if len(res.Players) != len(roster) {
		c.Violate("C02/result/count", fmt.Sprintf("hand %d: %d result entries for %d list entries", p.HandNo, len(res.Players), len(roster)), w())
		return
	}
	st := hd.Settled.T
	changed := map[string]int64{}
	for _, pr := range res.Players {
		if pr.Idx < 0 || pr.Idx >= len(roster) {
			c.Violate("C02/result/index", fmt.Sprintf("hand %d: result index %d", p.HandNo, pr.Idx), w())
			return
		}
		changed[roster[pr.Idx]] = pr.Changed
	}
	for _, ps := range st.State.PlayerStates {
		before, ok := bankOf(open, ps.PlayerID)
		if !ok {
			continue // arrived during the hand
		}
		want := before + changed[ps.PlayerID] + p.HandTopups[ps.PlayerID]
		if ps.Bankroll != want {
			c.Violate("C02/result/credited-to-other-player", fmt.Sprintf("hand %d: %s had %d at open, result %+d, top-ups %d, but has %d after settlement (roster %v results %v)", p.HandNo, ps.PlayerID, before, changed[ps.PlayerID], p.HandTopups[ps.PlayerID], ps.Bankroll, roster, changed), w())
			return
		}
	}
	// non-trivial?
	nt := false
	identity := len(roster) == len(open.State.PlayerStates)
	for i := range roster {
		if identity && open.State.PlayerStates[i].PlayerID != roster[i] {
			identity = false
		}
	}
	if !identity {
		nt = true
		c.Feature("roster-not-identity")
	}
	if open.Meta.Rule != "short_deck" {
		if di := open.State.SeatMap[open.State.CurrentDealerSeat]; di < 0 || !open.State.PlayerStates[di].IsParticipated {
			nt = true
			c.Feature("dead-button")
		}
		if sb := open.State.CurrentSBSeat; sb >= 0 {
			if si := open.State.SeatMap[sb]; si < 0 || !open.State.PlayerStates[si].IsParticipated {
				nt = true
				c.Feature("dead-sb")
			}
		}
	} else {
		c.Feature("short-deck-hand")
	}
	for _, op := range p.Ops {
		if op.Hand == p.HandNo && op.Phase == "mid" && op.Err == "" && (op.Kind == "buyin" || op.Kind == "leave") {
			nt = true
			c.Feature("membership-change-mid-hand:" + op.Kind)
		}
	}
	distinct := map[int64]bool{}
	for _, v := range changed {
		distinct[v] = true
	}
	if len(distinct) == len(changed) && len(changed) > 2 {
		c.Feature("pairwise-distinct-results")
	}
	if nt {
		c.Nontrivial()
		c.Count("nontrivial_hands", 1)
	}
}

// c02CheckRoster: the hand's list = the dealt-in players, once each, in clockwise seat order.
func c02CheckRoster(p *Play, open *pt.Table, roster []string, w func() interface{}) bool {
	c := p.C
	n := open.Meta.TableMaxSeatCount
	// (a) the list = the dealt-in players, once each, clockwise
	dealt := map[string]bool{}
	for _, ps := range open.State.PlayerStates {
		if ps.IsParticipated {
			dealt[ps.PlayerID] = true
		}
	}
	seen := map[string]bool{}
	for i, id := range roster {
		if id == "?" {
			c.Violate("C02/roster/index-out-of-range", fmt.Sprintf("hand %d: entry %d points outside the player list (%v)", p.HandNo, i, open.State.GamePlayerIndexes), w())
			return false
		}
		if seen[id] {
			c.Violate("C02/roster/duplicate-entry", fmt.Sprintf("hand %d: player %s is listed twice (%v)", p.HandNo, id, roster), w())
			return false
		}
		seen[id] = true
		if !dealt[id] {
			c.Violate("C02/roster/not-dealt-in-player-listed", fmt.Sprintf("hand %d: entry %d (%s) is not a dealt-in player", p.HandNo, i, id), w())
			return false
		}
	}
	for id := range dealt {
		if !seen[id] {
			c.Violate("C02/roster/dealt-in-player-missing", fmt.Sprintf("hand %d: dealt-in player %s is not in the hand's list %v", p.HandNo, id, roster), w())
			return false
		}
	}
	if len(roster) > 0 {
		s0 := seatOf(open, roster[0])
		prev := -1
		for i, id := range roster {
			d := ((seatOf(open, id)-s0)%n + n) % n
			if d <= prev && i > 0 {
				sig := "C02/roster/not-clockwise"
				if open.Meta.Rule == "short_deck" {
					sig += "/short-deck"
				}
				c.Violate(sig, fmt.Sprintf("hand %d: entries are not in clockwise seat order: %v seats %v", p.HandNo, roster, seatsOf(open, roster)), w())
				return false
			}
			prev = d
		}
	}
	return true
}

// c02Live checks the roster as soon as the hand opens and index stability on every snapshot, so that a hand
// that never settles because its list is wrong is still judged.
func c02Live() func(p *Play, e *h.Ev) {
	gc := -1
	var roster []string
	return func(p *Play, e *h.Ev) {
		if e.Kind != h.EvTable || e.T == nil || p.C.Failed() || p.Tainted != "" {
			return
		}
		t := e.T
		if t.State.Status == pt.TableStateStatus_TableGameOpened && t.State.GameCount != gc {
			gc = t.State.GameCount
			roster = nil
			for _, pi := range t.State.GamePlayerIndexes {
				if pi >= 0 && pi < len(t.State.PlayerStates) {
					roster = append(roster, t.State.PlayerStates[pi].PlayerID)
				} else {
					roster = append(roster, "?")
				}
			}
			r := roster
			c02CheckRoster(p, t, r, func() interface{} {
				m := p.witness().(map[string]interface{})
				m["roster"] = r
				m["opened"] = e.Brief()
				return m
			})
			return
		}
		if t.State.GameCount == gc && t.State.GameState != nil && roster != nil && len(t.State.GameState.Players) != len(roster) {
			p.C.Violate("C02/hand-entries-differ-from-list", fmt.Sprintf("hand %d: the hand engine plays %d entries, the hand's player list has %d (%v)", p.HandNo, len(t.State.GameState.Players), len(roster), roster), p.witness())
			return
		}
		if t.State.GameCount == gc && t.State.GameState != nil && roster != nil &&
			(t.State.Status == pt.TableStateStatus_TableGamePlaying || t.State.Status == pt.TableStateStatus_TableGameSettled) {
			for i := range roster {
				if got := h.PidOf(t, i); got != roster[i] || len(t.State.GamePlayerIndexes) != len(roster) {
					p.C.Violate("C02/roster/entry-denotes-other-player", fmt.Sprintf("hand %d: entry %d was %s at open but denotes %q in snapshot #%d (%s, list %v)", p.HandNo, i, roster[i], got, e.Seq, t.State.Status, t.State.GamePlayerIndexes), p.witness())
					return
				}
			}
		}
	}
}

// c02ZeroChipPlayer: a seated-in player without chips whom the seat manager considers live (0-chip buy-in or
// 0-chip re-buy). Either the hand is refused, or every entry still denotes its player with its own stack.
func c02ZeroChipPlayer(c *h.Ctx) {
	r := c.R
	cfg := h.GenTable(r, h.GenOpts{MinSeats: 3, MaxSeats: 7, MinPlayers: 3, DeepOnly: true, Modes: []string{"ct", "cash"}, Rules: []string{"default"}})
	zero := r.Intn(len(cfg.Players))
	cfg.Players[zero].Chips = 0
	rig := h.NewRigBackend()
	s, err := h.NewSim(h.SimConfig{Setting: cfg.Setting(false), Interval: 0, Backend: rig}, r.Int63())
	if err != nil {
		c.Inconclusive(err.Error())
		return
	}
	for _, pl := range cfg.Players {
		if err := s.Seat(pl.ID, pl.Seat, pl.Chips); err != nil {
			c.Inconclusive("seat: " + err.Error())
			return
		}
	}
	s.TE.StartTableGame()
	e, ok := s.WaitFor(5*time.Second, func(e *h.Ev) bool { return e.Kind == h.EvSetup }, nil)
	if !ok {
		c.Inconclusive("no set-up")
		return
	}
	s.SignalAll(h.SetupIDs(e.Setup))
	var opened, playing *h.Ev
	refused := false
	s.WaitFor(6*time.Second, func(e *h.Ev) bool {
		if e.Kind == h.EvError {
			refused = true
		}
		if e.Kind == h.EvTable && e.T != nil {
			if e.T.State.Status == pt.TableStateStatus_TableGameOpened && opened == nil {
				opened = e
			}
			if e.T.State.GameState != nil && playing == nil {
				playing = e
			}
		}
		return refused || playing != nil
	}, nil)
	w := map[string]interface{}{"cfg": cfg, "zero_chip_player": cfg.Players[zero].ID, "trace": s.TraceTail(25)}
	if playing != nil && opened != nil {
		t := opened.T
		var roster []string
		for _, pi := range t.State.GamePlayerIndexes {
			roster = append(roster, t.State.PlayerStates[pi].PlayerID)
		}
		gs := playing.T.State.GameState
		if len(gs.Players) != len(roster) {
			c.Violate("C02/hand-entries-differ-from-list", fmt.Sprintf("a seated-in player without chips is dealt in: the hand's list has %d entries %v, the hand engine plays %d", len(roster), roster, len(gs.Players)), w)
			return
		}
		for i, pl := range gs.Players {
			if b, ok := bankOf(t, roster[i]); ok && pl.Bankroll != b {
				c.Violate("C02/start-stack/not-the-entrys-bankroll", fmt.Sprintf("entry %d (%s) starts with %d, bankroll at open %d", i, roster[i], pl.Bankroll, b), w)
				return
			}
		}
		c.Feature("zero-chip-player:hand-opened")
	} else {
		c.Feature("zero-chip-player:hand-refused")
	}
	c.Nontrivial()
	c.FP("zero-chip", fmt.Sprintf("%+v", cfg))
	c.Sample(map[string]interface{}{"kind": "seated-in player with 0 chips", "cfg": cfg, "hand_refused": refused})
}

func seatsOf(t *pt.Table, ids []string) []int {
	out := []int{}
	for _, id := range ids {
		out = append(out, seatOf(t, id))
	}
	return out
}

func init() {
	h.Register(&h.Check{
		ID:        "C02",
		Level:     "exploration",
		Technique: "runtime monitoring: roster identity oracle over opened/playing/settled snapshots, backend call chain and action events of generated churny tables",
		Rule: "case = one generated table (seats 2..10, default/short-deck, gaps from busted / sitting-out players, dead button / dead SB, joins and bystander leaves while the hand runs) playing several hands; per hand the oracle checks list = dealt-in set in clockwise order, index stability in every snapshot, start stacks, accepted action <-> backend current player <-> action event, result credited per entry; " +
			"non-trivial = the table had a hand whose list is not the identity over the player list, or with a dead button / dead small blind, or a membership change while it ran; distinct = fingerprint of config+ops+rosters",
		Assumptions: []string{"the native backend's recorded input state tells which entry an action was applied to", "a dealt-in player leaving mid-hand is C01's recorded finding and is not generated here"},
		Cases: func(tier string) int {
			if tier == "thorough" {
				return 4000
			}
			return 256
		},
		MinNontrivial: func(tier string) int { return map[string]int{"quick": 80, "thorough": 1200}[tier] },
		RequiredFeatures: func(string) []string {
			return []string{"roster-not-identity", "dead-button", "dead-sb", "short-deck-hand", "membership-change-mid-hand:buyin", "membership-change-mid-hand:leave", "zero-chip-player:hand-refused"}
		},
		CaseTimeout: 180e9,
		Run: func(c *h.Ctx) {
			po := PlayOpts{
				Hands: 6 + c.R.Intn(8),
				Churn: Churn{BetweenP: 0.55, MidP: 0.15, Rebuy: true, AddOn: true, BuyIn: true, Leave: true, MidTopup: true, MidJoin: true, MidLeaveOther: true, RandomSeat: true, ResumePaused: true, SitOut: true, Batch: true, OverlapOpen: 0.3},
				Gen:   h.GenOpts{MinSeats: 3, MinPlayers: 3},
			}
			if c.R.Intn(4) == 0 {
				po.Gen.Rules = []string{"short_deck"}
			}
			if c.R.Intn(2) == 0 {
				po.Gen.ShortStacks = true
				po.Policies = []string{"maniac", "callstation", "random"}
				po.Decks = []string{"rank", "seeded"}
			}
			if c.Case%16 == 5 {
				c02ZeroChipPlayer(c)
				return
			}
			live := c02Live()
			probe := func(p *Play, e *h.Ev, gp int, pid string) bool {
				// somebody else submits an action for this turn: it must not be accepted for the entry in turn
				if p.R().Intn(3) != 0 || p.C.Failed() {
					return true
				}
				t := e.T
				var others []string
				for i := range t.State.GamePlayerIndexes {
					if id := h.PidOf(t, i); id != pid {
						others = append(others, id)
					}
				}
				// ... nor may anybody who has no entry in this hand act for one: a seated player who is not dealt in, a stranger
				for _, ps := range t.State.PlayerStates {
					if h.GameIdx(t, ps.PlayerID) < 0 {
						others = append(others, ps.PlayerID)
						break
					}
				}
				others = append(others, "nobody-at-this-table")
				who := others[p.R().Intn(len(others))]
				act := []string{"fold", "call", "check", "allin"}[p.R().Intn(4)]
				if err := h.DoAction(p.SS.S.TE, who, act, 0); err == nil {
					p.C.Violate("C02/action-of-another-player-applied-to-entry", fmt.Sprintf("hand %d: it is %s's turn (entry %d); %s submitted %s and it was accepted", p.HandNo, pid, gp, who, act), p.witness())
					return false
				}
				p.C.Count("out_of_turn_probes", 1)
				return true
			}
			p := RunPlay(c, po, &PlayMon{AfterHand: c02AfterHand, OnEvent: live, BeforeAct: probe})
			if p == nil {
				return
			}
			c.FP(fmt.Sprintf("%+v", p.Cfg), fmt.Sprintf("%+v", p.Ops))
			for _, hd := range p.SS.Hands {
				c.FP(hd.Roster())
			}
			// the answer of an asked player is an action of that entry's owner: it must be accepted for him
			if rr := p.RefusedResponses(); len(rr) > 0 && !c.Failed() {
				c.Violate("C02/answer-of-the-asked-player-refused/"+rr[0].Round, fmt.Sprintf("the hand asked %s (entry %d) for %s and refused his answer: %s (%d refused answers in this table's hands)", rr[0].PID, rr[0].GP, rr[0].Round, rr[0].Err, len(rr)), p.witness())
				return
			}
			if p.Stalled && !c.Failed() {
				c.InconclusiveW(fmt.Sprintf("foreign: hand %d did not settle within the watchdog", p.HandNo), p.witness())
				return
			}
			rs := [][]string{}
			for _, hd := range p.SS.Hands {
				if len(rs) < 4 {
					rs = append(rs, hd.Roster())
				}
			}
			c.Sample(map[string]interface{}{"cfg": p.Cfg, "hands": len(p.SS.Hands), "ops": trimOps(p.Ops, 10), "rosters": rs})
		},
	})
}
