package checks

import (
	"encoding/json"
	"fmt"
	"sort"
	"strings"
	"sync"

	pt "github.com/weedbox/pokertable"
	sm "github.com/weedbox/pokertable/seat_manager"

	h "verif/harness"
)

// C04 — button and blinds move by the dead-button rule for every history.
// Subject: the real seat_manager through its public API. The reachable state space is explored breadth-first
// with the real implementation as transition function (states are cloned through JSON; player ids are
// canonicalised to the seat number), exhaustively for small seat counts; random walks above that.

type smState = h.SMState

func smSnap(m sm.SeatManager) *smState {
	b, _ := json.Marshal(m)
	var st smState
	json.Unmarshal(b, &st)
	return &st
}

func smKey(st *smState) string {
	var sb strings.Builder
	fmt.Fprintf(&sb, "%d|%d|%d|%v|", st.DealerSeatID, st.SBSeatID, st.BBSeatID, st.IsInit)
	for i := 0; i < st.MaxSeat; i++ {
		sp := st.SeatData[i]
		if sp == nil {
			sb.WriteByte('.')
			continue
		}
		c := byte('a')
		if sp.IsIn {
			c += 1
		}
		if sp.HasChips {
			c += 2
		}
		if sp.IsBetweenDealerBB {
			c += 4
		}
		sb.WriteByte(c)
	}
	return sb.String()
}

// smBuild materialises a real seat manager from a (canonical) state.
func smBuild(st *smState) sm.SeatManager {
	c := *st
	c.SeatData = map[int]*sm.SeatPlayer{}
	for i := 0; i < st.MaxSeat; i++ {
		if sp := st.SeatData[i]; sp != nil {
			cp := *sp
			cp.ID = fmt.Sprintf("s%d", i)
			c.SeatData[i] = &cp
		} else {
			c.SeatData[i] = nil
		}
	}
	b, _ := json.Marshal(&c)
	m := sm.NewSeatManager(st.MaxSeat, st.Rule)
	json.Unmarshal(b, m)
	return m
}

func act(sp *sm.SeatPlayer) bool { return sp != nil && sp.IsIn && sp.HasChips && !sp.IsBetweenDealerBB }
func liv(sp *sm.SeatPlayer) bool { return sp != nil && sp.IsIn && sp.HasChips }

func nextSeat(st *smState, from int, pred func(*sm.SeatPlayer) bool) int {
	for k := 1; k < st.MaxSeat; k++ {
		x := (from + k) % st.MaxSeat
		if pred(st.SeatData[x]) {
			return x
		}
	}
	return -1
}
func prevSeat(st *smState, from int, pred func(*sm.SeatPlayer) bool) int {
	for k := 1; k < st.MaxSeat; k++ {
		x := ((from-k)%st.MaxSeat + st.MaxSeat) % st.MaxSeat
		if pred(st.SeatData[x]) {
			return x
		}
	}
	return -1
}
func count(st *smState, pred func(*sm.SeatPlayer) bool) int {
	n := 0
	for i := 0; i < st.MaxSeat; i++ {
		if pred(st.SeatData[i]) {
			n++
		}
	}
	return n
}

// c04Rotate judges one RotatePositions call. Returns (signature, detail) or "".
func c04Rotate(pre, post *smState, err error) (string, string) {
	n := pre.MaxSeat
	nlive := count(pre, liv)
	if err != nil {
		if nlive >= 2 {
			return "C04/rotation-refused-with-two-live-players", fmt.Sprintf("%d seated-in players have chips but the rotation was refused", nlive)
		}
		if smKey(pre) != smKey(post) {
			return "C04/refused-rotation-changed-state", fmt.Sprintf("refused rotation changed the seat manager: %s -> %s", smKey(pre), smKey(post))
		}
		return "", ""
	}
	if nlive < 2 {
		return "C04/rotation-accepted-with-fewer-than-two-live-players", fmt.Sprintf("only %d seated-in players have chips but the rotation went ahead", nlive)
	}
	nact := count(post, act)
	if pre.Rule == sm.Rule_ShortDeck {
		want := nextSeat(post, pre.DealerSeatID, act)
		if post.DealerSeatID != want || post.SBSeatID != -1 || post.BBSeatID != -1 {
			return "C04/short-deck-dealer", fmt.Sprintf("short deck: dealer %d -> %d, expected next dealt-in seat %d (sb/bb %d/%d)", pre.DealerSeatID, post.DealerSeatID, want, post.SBSeatID, post.BBSeatID)
		}
		return "", ""
	}
	d0, s0, b0 := pre.DealerSeatID, pre.SBSeatID, pre.BBSeatID
	d1, s1, b1 := post.DealerSeatID, post.SBSeatID, post.BBSeatID
	// big blind: next live seat clockwise, nobody skipped, never backwards
	wantBB := nextSeat(pre, b0, liv)
	if b1 != wantBB {
		return "C04/big-blind-not-next-live-seat", fmt.Sprintf("bb %d -> %d, the next seated-in seat with chips clockwise is %d", b0, b1, wantBB)
	}
	if b1 < 0 || b1 >= n || !act(post.SeatData[b1]) {
		return "C04/big-blind-seat-without-dealt-in-player", fmt.Sprintf("bb seat %d does not hold a dealt-in player", b1)
	}
	switch {
	case nact < 2:
		return "C04/rotation-accepted-with-fewer-than-two-dealt-in", fmt.Sprintf("%d dealt-in players after an accepted rotation", nact)
	case nact == 2:
		other := nextSeat(post, b1, act)
		if d1 != other || s1 != other {
			return "C04/heads-up-dealer-sb-not-the-other-player", fmt.Sprintf("two dealt in (bb %d, other %d) but dealer/sb = %d/%d", b1, other, d1, s1)
		}
	default:
		if s1 != b0 {
			return "C04/small-blind-not-previous-big-blind-seat", fmt.Sprintf("%d dealt in: sb seat %d, previous bb seat %d", nact, s1, b0)
		}
		fromHU := d0 == s0
		// the big blind wrapped round to, or past, the previous small-blind seat: the previous ring has collapsed
		wrap := s0 == b1 || strictlyBetween(n, b0, b1, s0)
		released := false
		for q := 0; q < n; q++ {
			if liv(pre.SeatData[q]) && !act(pre.SeatData[q]) && strictlyBetween(n, s0, b1, q) && act(post.SeatData[q]) {
				released = true
			}
		}
		if fromHU || wrap || released {
			want := prevSeat(post, s1, liv)
			if d1 != want {
				return "C04/dealer-not-nearest-live-seat-before-sb", fmt.Sprintf("%d dealt in after heads-up/collapsed ring (fromHU=%v wrap=%v released=%v): dealer %d, nearest live seat before sb %d is %d", nact, fromHU, wrap, released, d1, s1, want)
			}
		} else if d1 != s0 {
			return "C04/dealer-not-previous-small-blind-seat", fmt.Sprintf("%d dealt in: dealer seat %d, previous sb seat %d", nact, d1, s0)
		}
		if d1 == s1 || d1 == b1 || s1 == b1 {
			return "C04/button-seats-not-distinct", fmt.Sprintf("%d dealt in but dealer/sb/bb = %d/%d/%d", nact, d1, s1, b1)
		}
		if !strictlyBetween(n, d1, b1, s1) {
			return "C04/button-seats-out-of-order", fmt.Sprintf("%d dealt in: clockwise from the dealer seat %d the big-blind seat %d comes before the small-blind seat %d", nact, d1, b1, s1)
		}
	}
	return "", ""
}

// c04Init judges InitPositions.
func c04Init(pre, post *smState, err error) (string, string) {
	nact := count(pre, act)
	if err != nil {
		if nact >= 2 && !pre.IsInit {
			return "C04/init-refused-with-two-live-players", fmt.Sprintf("%d eligible players but InitPositions failed: %v", nact, err)
		}
		if smKey(pre) != smKey(post) {
			return "C04/refused-init-changed-state", smKey(pre) + " -> " + smKey(post)
		}
		return "", ""
	}
	if nact < 2 {
		return "C04/init-accepted-with-fewer-than-two", fmt.Sprintf("%d eligible players", nact)
	}
	d1, s1, b1 := post.DealerSeatID, post.SBSeatID, post.BBSeatID
	if pre.Rule == sm.Rule_ShortDeck {
		if d1 < 0 || !act(post.SeatData[d1]) || s1 != -1 || b1 != -1 {
			return "C04/short-deck-init", fmt.Sprintf("dealer/sb/bb %d/%d/%d", d1, s1, b1)
		}
		return "", ""
	}
	if b1 < 0 || !act(post.SeatData[b1]) {
		return "C04/init/big-blind-seat-without-dealt-in-player", fmt.Sprintf("bb %d", b1)
	}
	if nact == 2 {
		other := nextSeat(post, b1, act)
		if d1 != other || s1 != other {
			return "C04/init/heads-up", fmt.Sprintf("dealer/sb/bb %d/%d/%d other %d", d1, s1, b1, other)
		}
		return "", ""
	}
	wantSB := prevSeat(post, b1, act)
	wantD := prevSeat(post, wantSB, act)
	if s1 != wantSB || d1 != wantD || d1 == s1 || d1 == b1 || s1 == b1 {
		return "C04/init/ring-positions", fmt.Sprintf("dealer/sb/bb %d/%d/%d, expected %d/%d/%d", d1, s1, b1, wantD, wantSB, b1)
	}
	return "", ""
}

type c04Op struct {
	Kind string
	Seat int
}

func c04Ops(st *smState) []c04Op {
	var ops []c04Op
	for i := 0; i < st.MaxSeat; i++ {
		sp := st.SeatData[i]
		if sp == nil {
			ops = append(ops, c04Op{"assign", i})
			continue
		}
		if !sp.IsIn {
			ops = append(ops, c04Op{"join", i})
		}
		if sp.HasChips && act(sp) && st.IsInit {
			ops = append(ops, c04Op{"bust", i}) // only a dealt-in player can lose his stack
		}
		if !sp.HasChips {
			ops = append(ops, c04Op{"rebuy", i})
		}
		ops = append(ops, c04Op{"leave", i})
	}
	if st.IsInit {
		ops = append(ops, c04Op{"rotate", -1})
	} else {
		ops = append(ops, c04Op{"init", -1})
	}
	return ops
}

func c04Apply(m sm.SeatManager, op c04Op) error {
	id := fmt.Sprintf("s%d", op.Seat)
	switch op.Kind {
	case "assign":
		return m.AssignSeats(map[string]int{id: op.Seat})
	case "join":
		return m.JoinPlayers([]string{id})
	case "bust":
		return m.UpdatePlayerHasChips(id, false)
	case "rebuy":
		return m.UpdatePlayerHasChips(id, true)
	case "leave":
		return m.RemoveSeats([]string{id})
	case "rotate":
		return m.RotatePositions()
	case "init":
		return m.InitPositions(false)
	case "initrandom":
		return m.InitPositions(true)
	}
	return nil
}

// c04BFS explores all reachable states for (seats, rule). It returns (states, transitions, rotations, complete).
func c04BFS(c *h.Ctx, seats int, rule string, maxStates int) (int, int, int, bool) {
	start := smSnap(sm.NewSeatManager(seats, rule))
	visited := map[string]bool{smKey(start): true}
	frontier := []*smState{start}
	transitions, rotations := 0, 0
	type found struct {
		key string
		st  *smState
	}
	depth := 0
	parent := map[string]string{}
	for len(frontier) > 0 {
		depth++
		G := 16
		if len(frontier) < 64 {
			G = 1
		}
		outs := make([][]found, G)
		trs := make([]int, G)
		rots := make([]int, G)
		var viol struct {
			sync.Mutex
			sig, detail, from, op string
		}
		var wg sync.WaitGroup
		for g := 0; g < G; g++ {
			wg.Add(1)
			go func(g int) {
				defer wg.Done()
				for i := g; i < len(frontier); i += G {
					pre := frontier[i]
					for _, op := range c04Ops(pre) {
						m := smBuild(pre)
						err := c04Apply(m, op)
						post := smSnap(m)
						trs[g]++
						sig, det := "", ""
						switch op.Kind {
						case "rotate":
							rots[g]++
							sig, det = c04Rotate(pre, post, err)
						case "init":
							sig, det = c04Init(pre, post, err)
						}
						if sig != "" {
							viol.Lock()
							if viol.sig == "" {
								viol.sig, viol.detail, viol.from, viol.op = sig, det, smKey(pre), fmt.Sprintf("%s(%d)", op.Kind, op.Seat)
							}
							viol.Unlock()
						}
						outs[g] = append(outs[g], found{smKey(post), post})
						_ = err
					}
				}
			}(g)
		}
		wg.Wait()
		if viol.sig != "" {
			// reconstruct a path to the failing state for the witness
			path := []string{viol.from}
			for k := viol.from; parent[k] != ""; k = strings.SplitN(parent[k], " ", 2)[0] {
				path = append(path, parent[k])
			}
			c.Violate(viol.sig, fmt.Sprintf("seats=%d rule=%s state=%s op=%s: %s", seats, rule, viol.from, viol.op, viol.detail),
				map[string]interface{}{"seats": seats, "rule": rule, "state": viol.from, "op": viol.op, "path_back_to_start(state <- parent op)": path, "key_format": "dealer|sb|bb|init|per seat: . empty, letter = a + 1*is_in + 2*has_chips + 4*waiting"})
			return len(visited), transitions, rotations, false
		}
		var next []*smState
		for g := 0; g < G; g++ {
			transitions += trs[g]
			rotations += rots[g]
			for _, f := range outs[g] {
				if !visited[f.key] {
					visited[f.key] = true
					next = append(next, f.st)
				}
			}
		}
		// remember one parent per new state (cheap: recompute keys from the frontier order)
		frontier = next
		if len(visited) > maxStates {
			return len(visited), transitions, rotations, false
		}
	}
	return len(visited), transitions, rotations, true
}

func c04Walk(c *h.Ctx, seats int, rule string, steps int) {
	m := sm.NewSeatManager(seats, rule)
	hist := []string{}
	rot := 0
	for i := 0; i < steps && !c.Failed(); i++ {
		pre := smSnap(m)
		ops := c04Ops(pre)
		// bias towards rotations so that long histories of hands are seen
		op := ops[c.R.Intn(len(ops))]
		if pre.IsInit && c.R.Intn(3) == 0 {
			op = c04Op{"rotate", -1}
		}
		if !pre.IsInit && op.Kind == "init" && c.R.Intn(2) == 0 {
			op.Kind = "initrandom"
		}
		// walks use real ids that are not the seat number (ids must not matter)
		id := fmt.Sprintf("s%d", op.Seat)
		if sp := pre.SeatData[op.Seat%max1(seats)]; op.Seat >= 0 && sp != nil {
			id = sp.ID
		} else if op.Kind == "assign" {
			id = fmt.Sprintf("w%d", i)
		}
		var err error
		switch op.Kind {
		case "assign":
			err = m.AssignSeats(map[string]int{id: op.Seat})
		case "join":
			err = m.JoinPlayers([]string{id})
		case "bust":
			err = m.UpdatePlayerHasChips(id, false)
		case "rebuy":
			err = m.UpdatePlayerHasChips(id, true)
		case "leave":
			err = m.RemoveSeats([]string{id})
		default:
			err = c04Apply(m, op)
		}
		post := smSnap(m)
		hist = append(hist, fmt.Sprintf("%s(%d)->%s", op.Kind, op.Seat, smKey(post)))
		sig, det := "", ""
		switch op.Kind {
		case "rotate":
			rot++
			sig, det = c04Rotate(pre, post, err)
			if err == nil {
				c.Feature(fmt.Sprintf("rotate:seats=%d", seats))
			}
		case "init", "initrandom":
			sig, det = c04Init(pre, post, err)
		}
		if sig != "" {
			if len(hist) > 40 {
				hist = hist[len(hist)-40:]
			}
			c.Violate(sig, fmt.Sprintf("seats=%d rule=%s state=%s op=%s: %s", seats, rule, smKey(pre), op.Kind, det), map[string]interface{}{"seats": seats, "rule": rule, "history_tail": hist})
			return
		}
	}
	c.Count("walk_rotations", int64(rot))
	c.Count("walk_steps", int64(steps))
}

func max1(a int) int {
	if a < 1 {
		return 1
	}
	return a
}

type c04Plan struct {
	bfs    [][2]interface{} // (seats, rule)
	walks  int
	steps  int
	tables int
}

func c04PlanFor(tier string) c04Plan {
	p := c04Plan{walks: 480, steps: 600, tables: 96}
	maxBFS := 5
	if tier == "thorough" {
		maxBFS = 6
		p.walks, p.steps, p.tables = 3200, 3000, 1500
	}
	for s := 2; s <= maxBFS; s++ {
		p.bfs = append(p.bfs, [2]interface{}{s, "default"}, [2]interface{}{s, "short_deck"})
	}
	return p
}

// c04Table: the big-blind clause at table level. The seat manager only rotates correctly if the table keeps telling it
// who has chips; here real tables are played with busts, re-buys, top-ups of busted bystanders while a hand runs,
// arrivals and departures, and at every open the big blind must sit on the first seat after the previous big-blind
// seat whose player is seated-in with chips.
func c04Table(c *h.Ctx) {
	po := PlayOpts{
		Hands:    8 + c.R.Intn(10),
		Churn:    Churn{BetweenP: 0.5, MidP: 0.25, Rebuy: true, BuyIn: true, Leave: true, MidTopup: true, MidJoin: true, MidLeaveOther: true, SitOut: true, ResumePaused: true, RandomSeat: true, Batch: true},
		Gen:      h.GenOpts{MinSeats: 3, ShortStacks: true, Rules: []string{"default"}},
		Policies: []string{"maniac", "callstation", "random"},
		Decks:    []string{"rank", "seeded"},
	}
	prevBB, gc, judged := -1, -1, 0
	mon := &PlayMon{OnEvent: func(p *Play, e *h.Ev) {
		if e.Kind != h.EvTable || e.T == nil || e.T.State.Status != pt.TableStateStatus_TableGameOpened || e.T.State.GameCount == gc || c.Failed() {
			return
		}
		t := e.T
		gc = t.State.GameCount
		n := t.Meta.TableMaxSeatCount
		bb := t.State.CurrentBBSeat
		if prevBB >= 0 && bb >= 0 {
			live := map[int]string{}
			for _, ps := range t.State.PlayerStates {
				if ps.IsIn && ps.Bankroll > 0 {
					live[ps.Seat] = ps.PlayerID
				}
			}
			want := -1
			for i := 1; i <= n; i++ {
				if _, ok := live[(prevBB+i)%n]; ok {
					want = (prevBB + i) % n
					break
				}
			}
			if want != bb {
				m := p.witness().(map[string]interface{})
				m["opened"] = e.Brief()
				m["seat_manager"] = string(p.SS.S.SMJSON())
				c.Violate("C04/table/big-blind-not-next-live-seat", fmt.Sprintf("hand %d: previous big-blind seat %d, seated-in players with chips on seats %v: the big blind should be on seat %d, it is on seat %d", gc, prevBB, live, want, bb), m)
				return
			}
			judged++
			c.Count("table_rotations_judged", 1)
		}
		prevBB = bb
	}}
	p := RunPlay(c, po, mon)
	if p == nil {
		return
	}
	c.FP("table", fmt.Sprintf("%+v", p.Cfg), fmt.Sprintf("%+v", p.Ops))
	if judged > 0 {
		c.Nontrivial()
		c.Feature("table-level-rotations")
	}
	c.Sample(map[string]interface{}{"kind": "table-level big-blind rule", "cfg": p.Cfg, "hands": len(p.SS.Hands), "rotations_judged": judged})
}

func init() {
	h.Register(&h.Check{
		ID:        "C04",
		Level:     "exploration",
		Technique: "runtime monitoring of the real seat manager: exhaustive breadth-first exploration of its reachable states (real code as transition function) for small seat counts plus seeded random walks up to 10 seats, each rotation judged by an independent dead-button reference",
		Rule: "cases 0..k-1 = complete BFS for one (seat count, rule) pair each (seat counts 2..5 quick / 2..6 thorough, both rules; ops assign/join/bust(dealt-in only)/re-buy/leave/init/rotate addressed by seat, ids canonicalised); then random walks of 600 (quick) / 3000 (thorough) operations on 5..10 seats incl. random InitPositions; the last 96 (quick) / 1500 (thorough) cases are real tables (default rule, 8..17 hands with busts, re-buys, top-ups of busted bystanders while a hand runs, arrivals, departures) on which every open must put the big blind on the first seat after the previous big-blind seat whose player is seated-in with chips; " +
			"every seat-manager case is non-trivial (it judges rotations), a table case when it judged a rotation; distinct = (seat count, rule) for BFS cases, seed for walks",
		Assumptions: []string{
			"who is dealt in (the Active set after the rotation) is taken as observed - C05 judges waiting",
			"a ring whose previous small-blind seat is also the new big-blind seat, or whose waiting players had to be released, is judged like the statement's from-heads-up case (dealer = nearest live seat before the small blind): 'dealer = previous small-blind seat' and 'three distinct seats in the order dealer, small blind, big blind' cannot both hold there; 'collapsed' also covers a big blind that moved past the previous small-blind seat",
			"only dealt-in players can bust",
		},
		Cases: func(tier string) int { pl := c04PlanFor(tier); return len(pl.bfs) + pl.walks + pl.tables },
		MinNontrivial: func(tier string) int {
			pl := c04PlanFor(tier)
			return len(pl.bfs) + pl.walks*9/10 + pl.tables/2
		},
		CaseTimeout: 1500e9,
		Post: func(tier string, rs []*h.CaseResult) map[string]interface{} {
			states, trans, rots := int64(0), int64(0), int64(0)
			complete := true
			nb := len(c04PlanFor(tier).bfs)
			per := []string{}
			for i, r := range rs {
				if i >= nb {
					break
				}
				if r == nil || r.Verdict != h.Held || r.Counters["bfs_complete"] != 1 {
					complete = false
					continue
				}
				states += r.Counters["bfs_states"]
				trans += r.Counters["bfs_transitions"]
				rots += r.Counters["bfs_rotations"]
				per = append(per, fmt.Sprintf("%v: %d states, %d transitions, %d rotations judged", r.Sample, r.Counters["bfs_states"], r.Counters["bfs_transitions"], r.Counters["bfs_rotations"]))
			}
			sort.Strings(per)
			return map[string]interface{}{"states": states, "transitions": trans, "rotations_judged_in_bfs": rots, "exhaustive": complete, "exhaustive_scope": fmt.Sprintf("reachable seat-manager states for seat counts 2..%d, both rules (random walks above that are not exhaustive)", map[string]int{"quick": 5, "thorough": 6}[tier]), "bfs_per_space": per}
		},
		Run: func(c *h.Ctx) {
			pl := c04PlanFor(c.Tier)
			if c.Case < len(pl.bfs) {
				seats, rule := pl.bfs[c.Case][0].(int), pl.bfs[c.Case][1].(string)
				st, tr, ro, done := c04BFS(c, seats, rule, 30_000_000)
				c.Count("bfs_states", int64(st))
				c.Count("bfs_transitions", int64(tr))
				c.Count("bfs_rotations", int64(ro))
				if done {
					c.Count("bfs_complete", 1)
				} else if !c.Failed() {
					c.Inconclusive(fmt.Sprintf("BFS for seats=%d rule=%s stopped at %d states", seats, rule, st))
				}
				c.FP("bfs", seats, rule)
				c.Nontrivial()
				c.Feature(fmt.Sprintf("bfs:seats=%d,%s", seats, rule))
				c.Sample(fmt.Sprintf("BFS seats=%d rule=%s", seats, rule))
				return
			}
			if c.Case >= len(pl.bfs)+pl.walks {
				c04Table(c)
				return
			}
			seats := 5 + c.R.Intn(6)
			rule := "default"
			if c.R.Intn(4) == 0 {
				rule = "short_deck"
			}
			c04Walk(c, seats, rule, pl.steps)
			c.FP("walk", c.Seed)
			c.Nontrivial()
			c.Sample(fmt.Sprintf("random walk seats=%d rule=%s steps=%d", seats, rule, pl.steps))
		},
	})
}
