#!/bin/bash
# usage: tools/sweep.sh <seed> [tier]  -- runs every check once and prints one line per check plus any alarm
V="$(cd "$(dirname "$0")/.." && pwd)"; cd "$V"
export VERIF_SEED="$1"; T="${2:-quick}"
for id in C01 C02 C03 C04 C05 C06 C07 C08 C09 C10 C11 C12 C13 C14 C15 C16 C17 C18 C19 C20; do
  bin/check $id $T 2>&1 | grep -E "^VIOLATION|^INCONCLUSIVE|signature=|seed=" 
done
