#!/bin/bash
# Runs every seeded change under <verif>/seeded against the quick check of the property it targets and writes
# seeded/RESULTS.tsv. The change is applied to a scratch copy of the repository (never to /repo):
#   usage: tools/mutmatrix.sh <scratch-repo-dir> [id-prefix]      (scratch dir = a git worktree / clone of /repo at HEAD)
set -u
V="$(cd "$(dirname "$0")/.." && pwd)"
R="$1"; F="${2:-}"
cd "$V"; mkdir -p "$V/.build"
out="$V/seeded/RESULTS.tsv"
[ -z "$F" ] && : > "$out"
export VERIF_REPO="$R" VERIF_EVIDENCE_DIR="$V/.work/evidence-scratch" VERIF_WORK_SUFFIX="-$(basename "$R")"
for d in "$V"/seeded/*/; do
  id=$(basename "$d"); prop=${id%%-*}
  [ -n "$F" ] && [[ "$id" != $F* ]] && continue
  [ -f "$d/patch.diff" ] || continue
  if ! git -C "$R" apply --check "$d/patch.diff" 2>/dev/null; then echo -e "$id\t$prop\tdoes-not-apply\t" >> "$out"; continue; fi
  git -C "$R" apply "$d/patch.diff"
  start=$(date +%s)
  timeout 1200 bin/check $prop quick > "$V/.build/mm.log" 2>&1; rc=$?
  git -C "$R" apply -R "$d/patch.diff"
  sig=$(grep -m1 "signature=" "$V/.build/mm.log" | sed 's/.*signature=\([^ ]*\).*/\1/')
  [ -z "$sig" ] && sig=$(grep -m1 -E "INCONCLUSIVE|BUILD" "$V/.build/mm.log" | cut -c1-120)
  echo -e "$id\t$prop\texit=$rc\t$sig\t$(( $(date +%s) - start ))s" >> "$out"
done
cat "$out"
