#!/usr/bin/env python3
"""Regenerate MANIFEST.json from the table below (one entry per claimed property)."""
import json
C = {
 "C01": ("exploration", "held on the generated multi-hand tables of this run: per-player chip ledger vs live table at every quiescent point, start stacks vs bankrolls, zero-sum results", "trusts pokerface's Result as per-hand ground truth (zero-sum checked each hand) and the driver's record of accepted chip operations", "runtime monitoring: conservation ledger over recorded executions of the real engine"),
 "C02": ("exploration", "held on the generated churny tables of this run: list = dealt-in set clockwise, index stability in every snapshot, start stacks, accepted action <-> backend current player <-> event, result per entry", "the native backend's recorded input state tells which entry an action was applied to", "runtime monitoring: roster identity oracle over snapshots, backend call chain and action events"),
 "C03": ("exploration", "held on the random valid/invalid membership sequences of this run: table/seat-map/seat-manager agreement after every call, byte-identical state after refusals, reference-model accept/reject", "operations issued sequentially at quiescent points; auto-join timer cannot fire within a sequence", "runtime monitoring: invariant + reference-model oracle at every operation boundary"),
 "C04": ("exploration", "complete breadth-first exploration of the real seat manager's reachable states for small seat counts (exhaustive: true in evidence) plus random walks to 10 seats; every rotation judged by an independent dead-button reference", "Active set after rotation taken as observed; collapsed-ring corner judged like the from-heads-up case (see DESIGN)", "runtime state-space exploration through the real code + reference oracle"),
 "C05": ("exploration", "held on the generated tables of this run: eligibility tracker over consecutive opened snapshots", "button reference ambiguous across heads-up transitions: judged only where both references agree; add-on to busted player not judged at the next open", "runtime monitoring: trace checker over opened snapshots"),
 "C06": ("exploration", "held on the generated default-rule tables of this run: independent label / next-BB reference on every opened and settled snapshot", "dealt-in flags and button seats taken as given", "runtime monitoring: reference-model oracle on snapshots"),
 "C07": ("exploration", "held on the generated multi-hand tables and negative scenarios of this run: online life-cycle trace checker on every notification, field resets at quiescent points, no hand after close / release / break / unset blinds / repeated set-up", "'no hand opens' decided when the gate callback has returned; continue-delay variants wait 2.5 s (can only hide, not create, a violation)", "runtime monitoring: online trace-specification checker + negative scenarios on gate events"),
 "C08": ("exploration", "held on the churny tables of this run: pause iff break or too few players with chips at every continue decision; with two seated-in players with chips the next hand opened after the signals in every case (bounded progress on logical gate events)", "liveness restated as bounded progress: refusal = gate callback returned / open error without a hand; nothing within 42 s is inconclusive", "runtime monitoring: decision oracle + bounded-progress oracle on logical events"),
 "C12": ("exploration", "held on the generated tables of this run: hand-engine options, every playing/settled snapshot and the published hand level equal the level in force when the driver let the hand open; break handling incl. created-on-break and updates inside the continue interval", "updates issued at quiescent points only (no concurrent level clock, see DESIGN)", "runtime monitoring: driver-known level vs snapshots and backend options"),
 "C14": ("exploration", "held on the generated hands of this run: counters equal the driver's count of accepted actions, fold flag/round, did=>chance for all nine pairs, at most one 3-bet holder, reset between hands", "raise counter bounded, not exactly predicted", "runtime monitoring: shadow counters vs settled snapshots"),
 "C15": ("exploration", "held on the generated turns of this run: deadline within the bracket [call time, delivery time] + action time, cleared at round close and between hands, extensions exact incl. repeated and after expiry", "wall-clock bracket in whole seconds around the engine's clock read", "runtime monitoring: bracketed time oracle on snapshots and extension calls"),
 "C16": ("exploration", "held on the concurrent storms of this run: linearizability of recorded histories (porcupine), unforked backend chain, conservation, and zero race reports between sections serialised by the same lock", "histories <= 32-40 ops; baseline race noise outside the serialised sections only counted", "runtime monitoring under the race detector + offline linearizability checking of recorded histories"),
}
checks = []
for pid in sorted(C):
    cat, text, note, tech = C[pid]
    checks.append({
        "property_id": pid,
        "quick_cmd": f"bin/check {pid} quick",
        "thorough_cmd": f"bin/check {pid} thorough",
        "evidence_file": f"/verif/evidence/{pid}.json",
        "replay_cmd_template": f"bin/check {pid} quick --case <case number named in {{path}}>",
        "engine": "vcheck",
        "level_claimed": {"category": cat, "text": text, "design_ref": f"DESIGN.md section 4, {pid}"},
        "level_note": note,
        "technique": tech,
    })
allp = [json.loads(l)["id"] for l in open("/verif/properties.jsonl")]
na = [{"property_id": p, "reason": "check not built yet in this session (planned: runtime monitoring, see DESIGN.md section 4)"} for p in allp if p not in C]
m = {
 "version": 1,
 "setup_cmd": "cd /verif && export GOFLAGS=-mod=mod GOPROXY=off GOSUMDB=off GOTOOLCHAIN=local && mkdir -p .build && go build -tags verif -o .build/vcheck ./cmd/vcheck && go build -race -tags verif -o .build/vcheck-race ./cmd/vcheck",
 "hooks": {"guard": "verif", "enable": "go build -tags verif (bin/check builds /verif/cmd/vcheck against /repo's working tree with the tag on)",
           "baseline_off_cmd": "cd /repo && GOFLAGS=-mod=mod GOPROXY=off GOSUMDB=off GOTOOLCHAIN=local go test -vet=off -count=1 -timeout 25m ./...",
           "source_commits": ["0310c28"], "add_only": True},
 "engines": [{"name": "vcheck", "path": "/verif/cmd/vcheck", "serves_properties": sorted(C), "kind_free_text": "Go runtime-monitoring harness: drives the real engine in worker processes, records callbacks / spies / backend call chain, runs per-property oracles; race-detector build for concurrency checks"}],
 "checks": checks,
 "not_applicable": na,
 "notes": "every check: exit 0 = held on everything explored, exit 1 + VIOLATION line = violation not listed in known_findings.json, exit 3 + INCONCLUSIVE line = coverage floor missed (treated as a broken run, never as a pass). VERIF_SEED selects the case list.",
}
json.dump(m, open("/verif/MANIFEST.json", "w"), indent=1)
print("claimed:", sorted(C))
