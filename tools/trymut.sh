#!/bin/bash
# usage: tools/trymut.sh <patch.diff> <Cxx> [tier]   -- apply a seeded change to /repo, run one check, undo it
set -u
P="$1"; ID="$2"; TIER="${3:-quick}"
cd /repo || exit 2
if [ -n "$(git status --porcelain --untracked-files=no)" ]; then echo "/repo not clean"; exit 2; fi
git apply "$P" || { echo "patch does not apply"; exit 2; }
cd /verif
VERIF_EVIDENCE_DIR="$(cd "$(dirname "$0")/.." && pwd)/.work/evidence-scratch" bin/check "$ID" "$TIER" > /tmp/trymut.$$.log 2>&1; rc=$?
git -C /repo checkout -- .
grep -E "^(VIOLATION|KNOWN-FINDING|INCONCLUSIVE|BUILD)|signature=|seed=" /tmp/trymut.$$.log | head -12
echo "exit=$rc"
rm -f /tmp/trymut.$$.log
