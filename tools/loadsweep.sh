#!/bin/bash
# usage: tools/loadsweep.sh <seed> <parallel>  -- every quick check once, <parallel> at a time (a loaded machine is where
# wall-clock assumptions of the checks show); output in .work/load<seed>/<Cxx>.log, summary on stdout
V="$(cd "$(dirname "$0")/.." && pwd)"; cd "$V"; S="$1"; P="${2:-8}"; mkdir -p .work/load$S
bin/check C03 quick >/dev/null 2>&1   # builds both binaries once
printf "%s\n" C01 C02 C03 C04 C05 C06 C07 C08 C09 C10 C11 C12 C13 C14 C15 C16 C17 C18 C19 C20 | \
  xargs -P "$P" -I{} bash -c "VERIF_SEED=$S VERIF_WORK_SUFFIX=-load$S VERIF_EVIDENCE_DIR=$V/.work/load$S/ev bin/check {} quick > .work/load$S/{}.log 2>&1"
grep -h -E "^VIOLATION|^INCONCLUSIVE|signature=|seed=" .work/load$S/*.log
