#!/bin/bash
# usage: tools/runmuts.sh <scratch-repo-dir> <out.tsv> <patch1>:<Cxx> <patch2>:<Cxx> ...
# applies each patch to the scratch copy (never /repo), runs the named property's quick check, undoes it.
set -u
V="$(cd "$(dirname "$0")/.." && pwd)"
R="$1"; OUT="$2"; shift 2
mkdir -p "$V/.build"; cd "$V"; export VERIF_REPO="$R" VERIF_EVIDENCE_DIR="$V/.work/evidence-scratch" VERIF_WORK_SUFFIX="-$(basename "$R")"; : > "$OUT"
for pc in "$@"; do
  p="${pc%%:*}"; prop="${pc##*:}"
  if ! git -C "$R" apply --check "$p" 2>/dev/null; then echo -e "$p\t$prop\tdoes-not-apply" >> "$OUT"; continue; fi
  git -C "$R" apply "$p"; start=$(date +%s)
  timeout 1500 bin/check $prop quick > "$OUT.log" 2>&1; rc=$?
  git -C "$R" apply -R "$p"
  sig=$(grep -m1 "signature=" "$OUT.log" | sed 's/.*signature=\([^ ]*\).*/\1/')
  [ -z "$sig" ] && sig=$(grep -m1 -E "INCONCLUSIVE|BUILD" "$OUT.log" | cut -c1-100)
  echo -e "$p\t$prop\texit=$rc\t$sig\t$(( $(date +%s) - start ))s" >> "$OUT"
done
cat "$OUT"
