#!/bin/bash
# usage: [R7_OUT=/tmp/wt-out8 R7_LETTERS="O" R7_ROUND=8] tools/round7.sh <Cxx>  -- verify the two round-7 packages of one property (tools/verify_pkg.py), then run the
# property's quick check against each kept change on a scratch copy; result lines in .work/r7/<Cxx>.txt
V="$(cd "$(dirname "$0")/.." && pwd)"; P="$1"; cd "$V"; mkdir -p .work/r${R7_ROUND:-7}
out=".work/r${R7_ROUND:-7}/$P.txt"; : > "$out"
args=""
for X in ${R7_LETTERS:-M N}; do
  d=${R7_OUT:-/tmp/wt-out7}/$P/$X
  [ -f $d/meta.json ] || { echo "$P-$X missing" >> "$out"; continue; }
  python3 tools/verify_pkg.py $d ${R7_ROUND:-7} >> "$out" 2>&1 && args="$args $V/seeded/$P-$X/patch.diff:$P"
done
if [ -n "$args" ]; then
  S=/tmp/scr-$P; git -C /repo worktree remove --force $S 2>/dev/null; git -C /repo worktree add -q --detach $S HEAD
  tools/runmuts.sh $S "$V/.work/r${R7_ROUND:-7}/$P.tsv" $args >> "$out" 2>&1
  git -C /repo worktree remove --force $S
fi
echo DONE >> "$out"
