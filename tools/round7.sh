#!/bin/bash
# usage: tools/round7.sh <Cxx>  -- verify the two round-7 packages of one property (tools/verify_pkg.py), then run the
# property's quick check against each kept change on a scratch copy; result lines in .work/r7/<Cxx>.txt
V="$(cd "$(dirname "$0")/.." && pwd)"; P="$1"; cd "$V"; mkdir -p .work/r7
out=".work/r7/$P.txt"; : > "$out"
args=""
for X in M N; do
  d=/tmp/wt-out7/$P/$X
  [ -f $d/meta.json ] || { echo "$P-$X missing" >> "$out"; continue; }
  python3 tools/verify_pkg.py $d 7 >> "$out" 2>&1 && args="$args $V/seeded/$P-$X/patch.diff:$P"
done
if [ -n "$args" ]; then
  S=/tmp/scr-$P; git -C /repo worktree remove --force $S 2>/dev/null; git -C /repo worktree add -q --detach $S HEAD
  tools/runmuts.sh $S "$V/.work/r7/$P.tsv" $args >> "$out" 2>&1
  git -C /repo worktree remove --force $S
fi
echo DONE >> "$out"
