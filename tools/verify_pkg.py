#!/usr/bin/env python3
"""Re-verify a seeded change written by a sub-agent and package it under /verif/seeded/<id>/.
usage: tools/verify_pkg.py <author-dir (patch.diff, demo_test.go, meta.json, README.md)> <round>
Steps (in a fresh scratch worktree of /repo under /tmp, removed afterwards):
  1 demo on the unchanged tree passes (2x)   2 patch applies, tree builds   3 demo fails with it
  4 pinned suite (hooks off) 51/51 with it    5 copy to seeded/<id>/ with meta.json 'verified'
Prints one line: <id> KEEP|REJECT <reason>"""
import json, os, shutil, subprocess, sys, glob
src = os.path.abspath(sys.argv[1]); rnd = int(sys.argv[2])
V = os.path.dirname(os.path.dirname(os.path.abspath(__file__)))
meta = json.load(open(os.path.join(src, "meta.json")))
pid = meta["id"]
env = dict(os.environ, GOFLAGS="-mod=mod", GOPROXY="off", GOSUMDB="off", GOTOOLCHAIN="local")
wt = "/tmp/v7/" + pid
def sh(cmd, cwd=None, timeout=900):
    try:
        p = subprocess.run(cmd, shell=True, cwd=cwd, env=env, stdout=subprocess.PIPE, stderr=subprocess.STDOUT, text=True, timeout=timeout)
        return p.returncode, p.stdout
    except subprocess.TimeoutExpired as e:
        return 124, (e.stdout or "") if isinstance(e.stdout, str) else "timeout"
def done(verdict, why):
    sh("git -C /repo worktree remove --force " + wt)
    print(pid, verdict, why); sys.exit(0 if verdict == "KEEP" else 1)
os.makedirs("/tmp/v7", exist_ok=True)
sh("git -C /repo worktree remove --force " + wt)
rc, out = sh("git -C /repo worktree add -q --detach %s HEAD" % wt)
if rc: print(out); done("REJECT", "worktree")
head = sh("git -C /repo rev-parse --short HEAD")[1].strip()
demo_rel = meta["demo_path_in_repo"].split()[0].rstrip(",;")
demos = [f for f in os.listdir(src) if f.endswith(".go")]
def place():
    dst = os.path.join(wt, demo_rel)
    if demo_rel.endswith(".go"):
        os.makedirs(os.path.dirname(dst), exist_ok=True)
        shutil.copy(os.path.join(src, demos[0]), dst)
        for extra in demos[1:]:
            shutil.copy(os.path.join(src, extra), os.path.join(os.path.dirname(dst), extra))
    else:
        os.makedirs(dst, exist_ok=True)
        for f in demos: shutil.copy(os.path.join(src, f), os.path.join(dst, f))
place()
cmd = meta["demo_cmd"]
notes = []
for i in range(2):
    rc, out = sh(cmd, cwd=wt, timeout=600)
    if rc == 0 and ("no tests to run" in out or "no test files" in out):
        done("REJECT", "demo command runs no test on the unchanged tree: " + cmd)
    if rc != 0:
        open("/tmp/v7/%s.pristine.log" % pid, "w").write(out)
        done("REJECT", "demo fails on the unchanged tree (try %d, rc=%d)" % (i + 1, rc))
notes.append("pristine 2/2")
rc, out = sh("git apply " + os.path.join(src, "patch.diff"), cwd=wt)
if rc: done("REJECT", "patch does not apply: " + out[:200])
rc, out = sh("go build ./... && go test -vet=off -count=1 -run '^$' ./... >/dev/null", cwd=wt)
if rc: done("REJECT", "does not build: " + out[-300:])
fails = 0
for i in range(3):
    rc, out = sh(cmd, cwd=wt, timeout=600)
    if rc != 0: fails += 1
    if fails: break
if not fails: done("REJECT", "demo passes with the change (3 tries)")
notes.append("mutant fails on try %d" % (i + 1))
# suite with hooks off, demo removed
sh("git checkout -q -- . ; git clean -fdq", cwd=wt)
sh("git apply " + os.path.join(src, "patch.diff"), cwd=wt)
rc, out = sh("python3 %s/tools/suite.py %s" % (V, wt), timeout=1500)
if rc != 0: done("REJECT", "suite: " + out[-300:].replace("\n", " | "))
notes.append("suite 51/51")
dst = os.path.join(V, "seeded", pid); os.makedirs(dst, exist_ok=True)
shutil.copy(os.path.join(src, "patch.diff"), dst)
for f in demos: shutil.copy(os.path.join(src, f), dst)
if os.path.exists(os.path.join(src, "README.md")): shutil.copy(os.path.join(src, "README.md"), dst)
meta["round"] = rnd
meta["verified"] = {"repo_head": head, "demo_pristine": "pass", "demo_mutant": "fail", "suite_with_mutant": "51/51",
                    "how": "tools/verify_pkg.py in scratch worktree " + wt, "notes": "; ".join(notes)}
meta["origin"] = "independent sub-agent given only the property text and a scratch worktree"
json.dump(meta, open(os.path.join(dst, "meta.json"), "w"), indent=2)
done("KEEP", "; ".join(notes))
