#!/usr/bin/env python3
"""Run the pinned baseline test suite of weedbox/pokertable in a given directory (hooks OFF)
and report which of the 51 stable tests did not pass.  The 'testcases' package has flaky tests that
can panic and take the whole test binary down, so stable tests that did not pass are re-run by name
(up to 3 times).  Exit 0 iff every stable test passed."""
import json, os, subprocess, sys
d = sys.argv[1] if len(sys.argv) > 1 else "/repo"
base = json.load(open("/root/.vp/BASELINE.json"))
stable = set(base["stable_pass"])
env = dict(os.environ, GOFLAGS="-mod=mod", GOPROXY="off", GOSUMDB="off", GOTOOLCHAIN="local")
def run(args):
    p = subprocess.run(["go", "test", "-json", "-vet=off", "-count=1", "-timeout", "25m"] + args,
                       cwd=d, env=env, stdout=subprocess.PIPE, stderr=subprocess.STDOUT, text=True)
    res = {}
    for line in p.stdout.splitlines():
        try: e = json.loads(line)
        except Exception: continue
        if e.get("Test") and e.get("Action") in ("pass", "fail"):
            res[e["Package"] + "::" + e["Test"]] = e["Action"]
    return res, p.stdout
res, out = run(["./..."])
if "[build failed]" in out or "cannot find package" in out:
    print(out[-3000:]); print("BUILD FAILED"); sys.exit(2)
passed = {k for k, v in res.items() if v == "pass"}
missing = sorted(stable - passed)
for attempt in range(3):
    if not missing: break
    still = []
    for t in missing:
        pkg, name = t.split("::")
        rel = "./" + pkg.split("github.com/weedbox/pokertable/")[-1] if "/pokertable/" in pkg else "."
        r, _ = run(["-run", "^" + name + "$", rel])
        if r.get(t) != "pass": still.append(t)
    missing = still
print("stable tests: %d, passed: %d" % (len(stable), len(stable) - len(missing)))
for t in missing: print("NOT PASSING:", t)
sys.exit(1 if missing else 0)
