// vcheck: supervisor / worker CLI of the pokertable runtime-monitoring checks.
package main

import (
	"fmt"
	"os"
	"strconv"

	_ "verif/checks"
	"verif/harness"
)

func envSeed() uint64 {
	if s := os.Getenv("VERIF_SEED"); s != "" {
		if v, err := strconv.ParseUint(s, 10, 64); err == nil {
			return v
		}
	}
	return 1
}

func main() {
	if len(os.Args) < 2 {
		fmt.Println("usage: vcheck run <ID> <quick|thorough> | vcheck case <ID> <tier> <n> | vcheck list")
		os.Exit(2)
	}
	root := os.Getenv("VERIF_ROOT")
	if root == "" {
		root = "/verif"
	}
	switch os.Args[1] {
	case "list":
		for _, id := range harness.IDs() {
			fmt.Println(id)
		}
	case "run":
		id, tier := os.Args[2], os.Args[3]
		o := harness.RunOpts{Root: root, Bin: os.Getenv("VCHECK_BIN"), RaceBin: os.Getenv("VCHECK_RACE_BIN"), Tier: tier, Seed: envSeed()}
		if o.Bin == "" {
			o.Bin, _ = os.Executable()
		}
		os.Exit(harness.Supervise(id, o))
	case "worker":
		// worker <ID> <tier> <seed> <shard> <shards> <from> <out> <root>
		a := os.Args[2:]
		seed, _ := strconv.ParseUint(a[2], 10, 64)
		shard, _ := strconv.Atoi(a[3])
		shards, _ := strconv.Atoi(a[4])
		from, _ := strconv.Atoi(a[5])
		os.Exit(harness.WorkerMain(a[0], a[1], seed, shard, shards, from, a[6], a[7]))
	case "case":
		// run one case in-process, verbose result on stderr
		id, tier := os.Args[2], os.Args[3]
		n, _ := strconv.Atoi(os.Args[4])
		os.Exit(harness.RunSingle(id, tier, envSeed(), n, root))
	}
}
